#!/usr/bin/env python3
"""Regenerates /verif/MANIFEST.json from lib/manifest_data.py (keeps it valid at all times)."""
import json, os, sys
sys.path.insert(0, os.path.dirname(os.path.abspath(__file__)))
import manifest_data as md
VERIF = os.path.dirname(os.path.dirname(os.path.abspath(__file__)))
props = [json.loads(l)["id"] for l in open(os.path.join(VERIF, "properties.jsonl")) if l.strip()]
checks = []
for pid in props:
    c = md.CHECKS.get(pid)
    if not c:
        continue
    checks.append({
        "property_id": pid,
        "quick_cmd": "bin/check %s quick" % pid,
        "thorough_cmd": "bin/check %s thorough" % pid,
        "evidence_file": "evidence/%s.json" % pid,
        "replay_cmd_template": "bin/check %s quick --replay {path}" % pid,
        "engine": "pbt-driver",
        "level_claimed": {"category": "exploration", "text": c["text"], "design_ref": c["design_ref"]},
        "level_note": c["note"],
        "technique": c["technique"],
    })
na = [{"property_id": p, "reason": md.NOT_YET.get(p, "check not built yet in this revision of /verif (planned, see DESIGN.md section 3)")} for p in props if p not in md.CHECKS]
m = {
    "version": 1,
    "setup_cmd": "python3 lib/gen_manifest.py --check && bin/check --selftest",
    "hooks": {"guard": "verif", "enable": "no source hook is needed: harness files are injected into a scratch copy of /repo's working tree at check time (in-package zz_verif_*_test.go files and packages under zverif/), built with -gcflags=all=-l",
              "baseline_off_cmd": md.BASELINE_OFF, "source_commits": [], "add_only": True},
    "engines": [{"name": "pbt-driver", "path": "bin/check", "serves_properties": [c["property_id"] for c in checks],
                 "kind_free_text": "python driver: scratch copy of the working tree + injected Go harness (pgregory.net/rapid v1.3.0 generators, native go fuzzing in thorough tiers, reference decoders from the toolchain), merges per-shard statistics into evidence"}],
    "checks": checks,
    "notes": md.NOTES,
    "not_applicable": na,
}
out = os.path.join(VERIF, "MANIFEST.json")
if "--check" in sys.argv:
    cur = json.load(open(out))
    sys.exit(0 if cur == m else (print("MANIFEST.json is stale: run lib/gen_manifest.py") or 1))
json.dump(m, open(out, "w"), indent=1)
print("wrote", out, len(checks), "checks;", len(na), "not_applicable")
