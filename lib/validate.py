#!/usr/bin/env python3
"""validate MANIFEST.json and evidence/*.json against the task's schemas (uses the tooling venv's jsonschema)"""
import json, glob, sys
import jsonschema
ok = True
jsonschema.validate(json.load(open('/verif/MANIFEST.json')), json.load(open('/root/.vp/MANIFEST.schema.json')))
es = json.load(open('/root/.vp/EVIDENCE.schema.json'))
for f in sorted(glob.glob('/verif/evidence/*.json')):
    try:
        jsonschema.validate(json.load(open(f)), es)
    except Exception as e:
        ok = False
        print("INVALID", f, str(e)[:300])
print("schemas ok" if ok else "schema problems")
sys.exit(0 if ok else 1)
