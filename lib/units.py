"""Per-property registry used by bin/check: which test packages of the scratch
copy are built, how they are run and sharded, the non-triviality rule that goes
into the evidence, generator floors and the prepare hooks (reference decoders,
copied emitters, generated corpus)."""
import glob
import os
import re
import shutil
import subprocess

VERIF = os.path.dirname(os.path.dirname(os.path.abspath(__file__)))


def _goroot(env):
    return subprocess.run(["go", "env", "GOROOT"], env=env, stdout=subprocess.PIPE, text=True).stdout.strip()


def prep_refdecoders(tree, scratch, env):
    """the toolchain's own (newer) copies of x86asm / arm64asm as reference decoders"""
    root = _goroot(env)
    for sub, name in (("x86/x86asm", "refx86"), ("arm64/arm64asm", "refarm64")):
        src = os.path.join(root, "src/cmd/vendor/golang.org/x/arch", sub)
        dst = os.path.join(tree, "zverif", name)
        os.makedirs(dst, exist_ok=True)
        for f in glob.glob(os.path.join(src, "*.go")):
            if f.endswith("_test.go"):
                continue
            shutil.copy(f, dst)
    open(os.path.join(tree, "zverif", "refarm64", "zz_shim.go"), "w").write(
        "package arm64asm\n\n"
        "// accessors for unexported fields (reference copy only)\n"
        "func ImmShiftParts(is ImmShift) (uint16, uint8) { return is.imm, is.shift }\n"
        "func MemImmOffset(m MemImmediate) int32 { return m.imm }\n"
        "// FormatMasks lists (mask, value) of every entry of the reference's instruction format table\n"
        "func FormatMasks() [][2]uint32 {\n\tout := make([][2]uint32, 0, len(instFormats))\n\tfor i := range instFormats {\n"
        "\t\tout = append(out, [2]uint32{instFormats[i].mask, instFormats[i].value})\n\t}\n\treturn out\n}\n")


def prep_emitters(tree, scratch, env):
    """arm64 / 386 emitters only build for those GOARCHs: copy them from the working
    tree into scratch packages (they depend on `unsafe` only) and export the emitters"""
    specs = [
        ("internal/patch/monkey_arm64.go", "emitarm64patch",
         "func JmpToFunctionValue(a, b uintptr) []byte { return jmpToFunctionValue(a, b) }\n"),
        ("internal/iface/jmp_arm64.go", "emitarm64iface",
         "func JmpWithRdx(a uintptr) []byte { return jmpWithRdx(a) }\n"
         "func JmpWithRdxAndCtx(a, b, c uintptr) []byte { return jmpWithRdxAndCtx(a, b, c) }\n"),
        ("internal/patch/monkey_386.go", "emit386patch",
         "func JmpToFunctionValue(a, b uintptr) []byte { return jmpToFunctionValue(a, b) }\n"),
    ]
    for src, pkg, shim in specs:
        dst = os.path.join(tree, "zverif", pkg)
        os.makedirs(dst, exist_ok=True)
        text = open(os.path.join(tree, src)).read()
        text = re.sub(r"(?m)^//go:build.*\n|^// \+build.*\n", "", text)
        text = re.sub(r"(?m)^package \w+", "package " + pkg, text, count=1)
        open(os.path.join(dst, "emit.go"), "w").write(text)
        open(os.path.join(dst, "shim.go"), "w").write("package %s\n\n%s" % (pkg, shim))


def strace_wrap(cmd, outdir, shard, uname):
    return ["strace", "-f", "-qq", "-e", "trace=mprotect", "-o", os.path.join(outdir, "strace-%s-%d.txt" % (uname, shard))] + cmd


def prep_corpus(tree, scratch, env):
    """generate the corpus of mock targets (DESIGN 2.2): quick tiers use the fixed corpus seed, thorough tiers derive it from VERIF_SEED"""
    seed = CORPUS_SEED
    if os.environ.get("VERIF_TIER_RESOLVED") == "thorough":
        try:
            seed = CORPUS_SEED + int(os.environ.get("VERIF_SEED", "1") or "1")
        except ValueError:
            pass
    dst = os.path.join(tree, "zverif", "corpus")
    os.makedirs(dst, exist_ok=True)
    r = subprocess.run(["python3", os.path.join(VERIF, "harness", "gencorpus.py"), str(seed), dst, "120"],
                       stdout=subprocess.PIPE, stderr=subprocess.STDOUT, text=True)
    if r.returncode != 0:
        raise RuntimeError("gencorpus failed: " + r.stdout)


CORPUS_SEED = 20260927

def c14_post(outdir, shard, u):
    """strace observer: every mprotect that touches the program image or the synthetic code arena must keep PROT_EXEC,
    and the last protection of every touched page must be read+exec without write"""
    import json as _json
    import re as _re
    rf = os.path.join(outdir, "c14-ranges-%s-%d.json" % (u["name"], shard))
    sf = os.path.join(outdir, "strace-%s-%d.txt" % (u["name"], shard))
    out = {"property": "C14", "unit": "strace-" + u["name"], "shard": shard, "evaluations": 0, "classes": {}, "excluded": {}, "samples": [],
           "violations": [], "knowns": [], "probes_ok": [], "notes": [], "completed": False, "exhaustive": False, "nontrivial_count": 0, "fingerprints": []}
    if not os.path.exists(rf) or not os.path.exists(sf):
        out["notes"].append("strace output or range file missing: the observer did not run")
        return out
    ranges = _json.load(open(rf))
    last = {}
    n = 0
    pat = _re.compile(r"mprotect\((0x[0-9a-f]+), (\d+), ([A-Z_|]+)")
    for line in open(sf, errors="replace"):
        m = pat.search(line)
        if not m or "= -1" in line:
            continue  # (calls split by strace into 'unfinished'/'resumed' lines carry their arguments on the first line)
        lo, ln, prot = int(m.group(1), 16), int(m.group(2)), m.group(3)
        hit = [k for k, (a, b) in ranges.items() if lo < b and lo + ln > a]
        if not hit:
            continue
        n += 1
        out["classes"]["mprotect-on-%s" % hit[0]] = out["classes"].get("mprotect-on-%s" % hit[0], 0) + 1
        if hit[0] == "synthetic-arena" and prot in ("PROT_READ|PROT_WRITE", "PROT_NONE") and ln >= 4 * 4096:
            continue  # the harness preparing / retiring a whole region (never a single-page goom write)
        if hit[0] == "synthetic-arena" and u["name"] == "placeholder-bounds" and prot == "PROT_READ|PROT_WRITE|PROT_EXEC" and ln == 2 * 4096:
            # the harness re-opening the two pages of the next placeholder cell (goom changes protections one page at a time)
            for pg in range(lo, lo + ln, 4096):
                last.pop(pg, None)
            continue
        if "PROT_EXEC" not in prot:
            p = os.path.join(outdir, "strace-violation-%s-%d.json" % (u["name"], shard))
            _json.dump({"property": "C14", "unit": out["unit"], "message": "mprotect without PROT_EXEC on %s: %s" % (hit[0], line.strip()),
                        "case": {"strace_line": line.strip()}}, open(p, "w"))
            out["violations"].append({"message": "a page of %s lost PROT_EXEC while being written: %s" % (hit[0], line.strip()), "replay": p})
            break
        for pg in range(lo, lo + ln, 4096):
            last[pg] = prot
        if len(out["samples"]) < 3:
            out["samples"].append(line.strip())
    for pg, prot in last.items():
        if "PROT_WRITE" in prot:
            p = os.path.join(outdir, "strace-violation-%s-%d.json" % (u["name"], shard))
            _json.dump({"property": "C14", "unit": out["unit"], "message": "page %#x left writable (%s)" % (pg, prot), "case": {"page": pg}}, open(p, "w"))
            out["violations"].append({"message": "page %#x is left writable after the last write (%s)" % (pg, prot), "replay": p})
            break
    out["evaluations"] = n
    out["nontrivial_count"] = len(last)
    out["fingerprints"] = sorted(last.keys())[:200000]
    out["completed"] = n > 0
    return out


def fuzz_post(outdir, shard, u):
    """native go fuzzing: the number of executions and of new coverage-increasing inputs comes from the fuzzer's own log"""
    import re as _re
    logf = os.path.join(outdir, "log-%s-%d.txt" % (u["name"].replace("/", "_"), shard))
    text = open(logf, errors="replace").read() if os.path.exists(logf) else ""
    execs = [int(x) for x in _re.findall(r"execs: (\d+)", text)]
    inter = [int(x) for x in _re.findall(r"\(total: (\d+)\)", text)]
    out = {"property": u["fuzz"]["property"], "unit": u["name"], "shard": shard, "evaluations": max(execs or [0]),
           "classes": {"fuzz-executions": max(execs or [0]), "coverage-increasing-inputs": max(inter or [0])}, "excluded": {}, "samples": [l for l in text.splitlines() if l.startswith("fuzz: elapsed")][-2:],
           "violations": [], "knowns": [], "probes_ok": [], "notes": ["go native fuzzing cannot be seeded: the saved failing input is the reproducible unit"],
           "completed": "\nPASS" in text or text.startswith("PASS"), "exhaustive": False, "nontrivial_count": max(inter or [0]), "fingerprints": []}
    return out


PROPS = {}

PROPS["C15"] = {
    "prepare": [prep_refdecoders, prep_emitters],
    "units": [
        {"name": "amd64-patch", "pkg": "./internal/patch", "run": "^TestVerifC15", "timeout": {"quick": 300, "thorough": 1500},
         "shards": {"quick": 1, "thorough": 8}},
        {"name": "amd64-iface", "pkg": "./internal/iface", "run": "^TestVerifC15", "timeout": {"quick": 300, "thorough": 1500}},
        {"name": "arm64-386", "pkg": "./zverif/c15", "run": "^TestVerifC15", "timeout": {"quick": 300, "thorough": 1500},
         "shards": {"quick": 1, "thorough": 4}},
    ],
    "rule": "cases are (from,to) address pairs fed to goom's own jump emitters: every 16-bit lane of `to` swept through all 65536 "
            "values with the other lanes drawn by rapid, to-from swept over +-2^31+-80 exhaustively for drawn bases, plus rapid-drawn "
            "random pairs; the emitted bytes are decoded by the toolchain's x86asm/arm64asm (reference) and interpreted symbolically; in pair mode a second "
            "sequence is emitted before the first is judged again (a sequence handed out stays what it was). amd64-patch/guards: rapid histories of "
            "patch / apply / unpatch / restore over 5 targets x 6 replacements through internal/patch guards; after every step the entry of each diverted "
            "target must load into RDX the address of the func value of its own replacement (and calling it runs that replacement), every other entry is pristine. "
            "A case is non-trivial when `to` has at least two non-zero 16-bit lanes or the pair lies within 128 bytes of the +-2GiB "
            "decision boundary; distinct by (emitter, from, to).",
    "assumptions": ["the reference decoders (cmd/vendor/golang.org/x/arch of the installed toolchain) decode MOV imm64 / JMP [reg] / JMP rel32 / MOVZ / MOVK / LDR / BR correctly",
                    "arm64 and 386 emitters are compiled on amd64 from the working tree's source files (they depend on unsafe only)"],
    "floors": [("amd64-patch/guards", "guards/restore-after-unpatch", 200), ("amd64-patch/guards", "guards/apply-after-another-patch-was-prepared", 500)],
}

PROPS["C20"] = {
    "prepare": [prep_corpus],
    "units": [
        {"name": "stub", "pkg": "./internal/bytecode/stub", "run": "^TestVerifC20$", "race": True,
         "timeout": {"quick": 300, "thorough": 1800}, "shards": {"quick": 1, "thorough": 8}},
        {"name": "stub-mmap-failing", "pkg": "./internal/bytecode/stub", "run": "^TestVerifC20Rlimit$",
         "timeout": {"quick": 300, "thorough": 1800}, "shards": {"quick": 1, "thorough": 4}},
        {"name": "consumers", "pkg": "./zverif/c20i", "run": "^TestVerifC20Consumers$",
         "timeout": {"quick": 300, "thorough": 1800}, "shards": {"quick": 1, "thorough": 8}},
    ],
    "rule": "in-package test of the stub allocator: (1) rapid-drawn sequences of request sizes 0..110000 against the fallback allocator with the bump "
            "pointer reset per case, up to and beyond exhaustion; (2) 2..16 requesters behind a spin barrier issuing 1..64-byte requests until "
            "exhaustion (race build); (3) Acquire with ordinary sizes (mmap path) and sizes the kernel rejects (0, >2^47: fallback dispatch); "
            "(4) fault injection: child processes with RLIMIT_AS lowered so that every mmap fails and ordinary concurrent Acquire calls take the fallback. "
            "Oracle: regions pairwise disjoint, inside the reserve, at least as large as requested, written through stub.Write and read back, executed "
            "(MOV EAX,imm;RET). Non-trivial: a sequence with >=2 successful regions or reaching exhaustion, a concurrent round in which >=2 requesters "
            "obtained regions, an Acquire sequence of >=2 sizes; distinct by the drawn sizes/goroutine count. Regions are also used out of hand-out order: half of the acquire cases use their regions only after all were handed out, last one first, every case re-writes its regions from the last to the first and checks that each keeps what was written to it last; the mmap-failing child writes all its fallback regions through stub.Write highest address first and reads them back (a death in that phase is a violation). consumers: rapid histories of interface mocks "
            "(apply / stub / Cancel / Reset / another interface through a second builder) with the method tables of all variables read after every step: "
            "a stub address outside the text image that newly appears in a slot must never have appeared in any slot before in the life of the process.",
    "assumptions": ["the harness does not own the scheduler: the concurrent units are seeded stress searches (sound under any interleaving, incomplete)",
                    "RLIMIT_AS is honoured by the kernel for anonymous mmap (child rounds where the Go runtime itself dies of the limit are counted as excluded)"],
    "floors": [("fallback-concurrent", "rounds-with>=2-successful-requesters", 10), ("acquire", "fallback", 5), ("acquire", "mmap", 50), ("acquire", "regions-rewritten-out-of-hand-out-order", 50),
               ("acquire-mmap-failing", "child-rounds-ok", 1)],
}

PROPS["C16"] = {
    "prepare": [prep_refdecoders],
    "parallel": 4,
    "units": [
        {"name": "totality", "pkg": "./zverif/c16", "run": "^TestVerifC16Totality$", "timeout": {"quick": 400, "thorough": 2400},
         "shards": {"quick": 1, "thorough": 8}},
        {"name": "exact", "pkg": "./zverif/c16", "run": "^TestVerifC16Exact$", "timeout": {"quick": 400, "thorough": 2400},
         "shards": {"quick": 1, "thorough": 2}},
        {"name": "windows", "pkg": "./zverif/c16", "run": "^TestVerifC16Windows$", "timeout": {"quick": 400, "thorough": 2400},
         "shards": {"quick": 1, "thorough": 4}},
        {"name": "extents", "pkg": "./internal/bytecode", "run": "^TestVerifC16Extents$", "timeout": {"quick": 400, "thorough": 2400},
         "shards": {"quick": 1, "thorough": 2}},
        {"name": "totality-fuzz", "pkg": "./zverif/c16", "run": "^$", "tiers": ("thorough",), "timeout": {"thorough": 900},
         "fuzz": {"target": "^FuzzVerifC16$", "seconds": {"thorough": 240}, "property": "C16"}, "post": fuzz_post},
    ],
    "rule": "totality: byte strings of length 0..16 from rapid (raw bytes; a structured prefix/REX/opcode-map/ModRM generator; real instructions of the "
            "test binary with mutated bytes, truncations and random tails) checked against the totality invariants (no panic incl. String(), "
            "1<=Len<=min(15,len), PC-relative field inside the instruction). windows: every prefix of a (real, zero-tailed, mutated or "
            "structured) byte string is decoded before and again after the whole string: totality for the bytes actually supplied and the same answer "
            "both times (the decoder's answer is a function of its input alone). extents: for every function of the test binary whose extent the "
            "reference walks cleanly, bytecode.GetFuncSize must equal the distance to the next function (instructions across page boundaries included). exact: every function "
            "(pclntab extents) of the test binary and of toolchain binaries walked in lock step with the reference decoder; Len, Op, PCRel, PCRelOff "
            "and goom's own displacement reader (bytecode.DecodeRelativeAddr) must agree, also after the displacement bytes of every 5th PC-relative "
            "instruction are overwritten with 18 boundary values. Non-trivial: a successfully decoded string / instruction; distinct by "
            "(first opcode bytes, Op, PCRel width, length).",
    "assumptions": ["the reference decoder is the toolchain's newer copy of the same upstream package (shared ancestry: a bug common to both is invisible)",
                    "positions the reference cannot decode (AVX2/VEX bodies of hand-written assembly, data in text) end the walk of that function and are counted, not judged"],
    "floors": [("totality", "decodable-pcrel", 1000), ("exact", "displacement-mutants", 10000), ("windows", "window/long-zero-tail", 500),
               ("extents", "extent-agrees", 2000), ("extents", "extent-agrees/instruction-across-a-page-boundary", 20)],
}

PROPS["C17"] = {
    "prepare": [prep_refdecoders],
    "parallel": 1,
    "units": [
        {"name": "words", "pkg": "./zverif/c17", "run": "^TestVerifC17$", "timeout": {"quick": 600, "thorough": 5400},
         "shards": {"quick": 1, "thorough": 4}},
    ],
    "exhaustive_units": ["words"], "exhaustive_tiers": ("thorough",), "disjoint_shard_units": ["words"],
    "rule": "thorough: all 2^32 instruction words (4 sequential shards, each internally parallel). quick: a stride-4099 sample of the word space "
            "(offset by the seed) outside the branch classes plus the branch-class encodings goom's extent/wrapper scans rely on (B, BL, B.cond exhaustively; "
            "CBZ/CBNZ, TBZ/TBNZ, ADR/ADRP, LDR literal, BR/BLR/RET strided over their free bits) plus, for every entry of the reference's format "
            "table (~1300 mask/value pairs), 4000 rapid-seeded words with random free bits whose 5/6-bit fields are forced to all-zeros or all-ones a quarter "
            "of the time each (alias decisions hang on ZR/SP registers and on boundary immediates). Oracle: Decode and Inst.String never panic; outside "
            "(w&0xFFD80000)==0xD5080000 both decoders agree on error-vs-instruction, Op and every PC-relative argument. Every enumerated word is distinct "
            "by construction; a word is non-trivial when it decodes to an instruction.",
    "assumptions": ["reference = toolchain's newer arm64asm copy (shared ancestry)", "SYS/SYSL encodings are checked for totality only"],
    "floors": [("words", "with-pcrel-argument", 100000), ("words", "per-format-samples", 1000000)],
}

PROPS["C18"] = {
    "units": [
        {"name": "pairs", "pkg": "./zverif/c18", "run": "^TestVerifC18$", "timeout": {"quick": 300, "thorough": 2400},
         "shards": {"quick": 1, "thorough": 16}},
        {"name": "pairs-fuzz", "pkg": "./zverif/c18", "run": "^$", "tiers": ("thorough",), "timeout": {"thorough": 900},
         "fuzz": {"target": "^FuzzVerifC18$", "seconds": {"thorough": 180}, "property": "C18"}, "post": fuzz_post},
    ],
    "rule": "cases are (parameter type, pattern x, argument y, relation, extra In alternatives): 43 parameter types (all int/uint widths, floats, string, "
            "bool, structs incl. unexported fields and float/slice/map fields, arrays, slices, maps, pointers incl. ** and rings, interface{} and error "
            "holding those, funcs); values come from boundary-biased value codes; y is independent, a deep copy of x (distinct storage), the very "
            "same value, or a deep copy with one leaf changed minimally (integer +-1, adjacent float, one character); nil patterns are given typed and untyped. Oracle: Go ==/DeepEqual/pointee/identity as the statement lists them, symmetry, "
            "Any, In == union of Equals, stable on re-evaluation - also when the same expression object is next evaluated on a prefix/extension of the same slice or on "
            "the same pointer/slice/map after its referent was changed in place (answers must equal those of a freshly built expression) - and no panic. The membership question is also asked the way users ask it, "
            "mocker.NewWhen(func(T) int).In(candidates...).Eval(y), incl. the candidate lists (nil, empty) / (empty, nil) of slice and map types and (candidates..., y). Expression independence: after Equals(x) answered for y, further Equals expressions (nil patterns for a map / pointer, a slice and an interface parameter type, and the same pattern for the same type) are built, resolved and evaluated; Equals(x).Eval(y) must not change. NaN, mixed signed zeros and interfaces of different dynamic types are "
            "generated and counted but not judged against Go equality. Non-trivial: a judged pair not built from two zero values; distinct by "
            "(type, x code, y code, relation, nil form).",
    "assumptions": ["arguments are presented to Eval as reflect.Values of the declared parameter type, as goom's own matcher does"],
    "floors": [("pairs", "equal-pairs", 2000), ("pairs", "unequal-pairs", 2000), ("pairs", "in-with->=2-alternatives", 2000), ("pairs", "neighbour-pairs", 2000),
               ("pairs", "aliased-input-series", 500), ("pairs", "mutated-referent-re-evaluated", 500)],
}

PROPS["C10"] = {
    "units": [
        {"name": "default", "pkg": "./zverif/c10", "run": "^TestVerifC10$", "env": {"VERIF_C10_MODE": "default"},
         "timeout": {"quick": 300, "thorough": 1800}, "shards": {"quick": 1, "thorough": 4}},
        {"name": "stripped", "pkg": "./zverif/c10", "run": "^TestVerifC10$", "env": {"VERIF_C10_MODE": "stripped"}, "build_flags": ["-ldflags=-s"],
         "timeout": {"quick": 300, "thorough": 1800}, "shards": {"quick": 1, "thorough": 2}},
        {"name": "pie", "pkg": "./zverif/c10", "run": "^TestVerifC10$", "env": {"VERIF_C10_MODE": "pie"}, "build_flags": ["-buildmode=pie"],
         "timeout": {"quick": 300, "thorough": 1800}, "shards": {"quick": 1, "thorough": 2}},
        {"name": "external", "pkg": "./zverif/c10", "run": "^TestVerifC10$", "env": {"VERIF_C10_MODE": "external"}, "build_flags": ["-ldflags=-linkmode=external"],
         "timeout": {"quick": 300, "thorough": 1800}, "shards": {"quick": 1, "thorough": 2}},
        {"name": "external-stripped", "pkg": "./zverif/c10", "run": "^TestVerifC10$", "env": {"VERIF_C10_MODE": "external-stripped"},
         "build_flags": ["-ldflags=-linkmode=external -s"], "timeout": {"quick": 300, "thorough": 1800}, "shards": {"quick": 1, "thorough": 2}},
        {"name": "pie-varfirst", "pkg": "./zverif/c10", "run": "^TestVerifC10$", "env": {"VERIF_C10_MODE": "pie-varfirst", "VERIF_C10_FIRST": "var"}, "build_flags": ["-buildmode=pie"],
         "timeout": {"quick": 300, "thorough": 1800}, "shards": {"quick": 1, "thorough": 2}},
        {"name": "external-varfirst", "pkg": "./zverif/c10", "run": "^TestVerifC10$", "env": {"VERIF_C10_MODE": "external-varfirst", "VERIF_C10_FIRST": "var"},
         "build_flags": ["-ldflags=-linkmode=external"], "timeout": {"quick": 300, "thorough": 1800}, "shards": {"quick": 1, "thorough": 2}},
        {"name": "default-varfirst", "pkg": "./zverif/c10", "run": "^TestVerifC10$", "env": {"VERIF_C10_MODE": "default-varfirst", "VERIF_C10_FIRST": "var"},
         "timeout": {"quick": 300, "thorough": 1800}, "shards": {"quick": 1, "thorough": 2}},
        {"name": "default-tablefirst", "pkg": "./zverif/c10", "run": "^TestVerifC10$", "env": {"VERIF_C10_MODE": "default-tablefirst", "VERIF_C10_FIRST": "table"},
         "timeout": {"quick": 300, "thorough": 1800}, "shards": {"quick": 1, "thorough": 2}},
    ],
    "rule": "five builds of the same test binary (default, -ldflags=-s, -buildmode=pie, external linking, external linking stripped), three of them run a second time with a variable as the first name the process looks up (function names first otherwise), the default build once more after AllFunctions / GetFunctionSymbol and three collections. Inputs: every function name of the binary's pclntab, every OBJECT "
            "symbol of its .symtab plus harness-owned variables in .data/.bss/.noptrdata/.noptrbss whose addresses are known as &v, and rapid-generated "
            "near-miss names (drop/insert/flip a character, strip or swap the package path, add (*T)., prefixes, suffixes) and fresh names. Oracle from "
            "independent sources: pclntab entry + load slide (from /proc/self/maps), runtime.FuncForPC(addr).Entry()==addr and its name, .symtab FUNC value, "
            "&variable; absent names must error; in the non-default builds the answer is an error, the documented ldflags panic, or the exact address. "
            "Every looked-up name is distinct; non-trivial = a present symbol or a near-miss derived from one.",
    "assumptions": ["debug/elf and debug/gosym (also used by goom) parse the binary correctly; the runtime's function table is an independent witness for functions"],
    "floors": [("all-functions/default", "exact-function", 3000), ("all-variables/default", "exact-variable", 1000),
               ("all-variables/default", "exact-own-variable", 5)],
}

PROPS["C03"] = {
    "prepare": [prep_refdecoders, prep_corpus],
    "units": [
        {"name": "static", "pkg": "./internal/patch", "run": "^TestVerifC03Static$", "timeout": {"quick": 400, "thorough": 2400},
         "shards": {"quick": 1, "thorough": 4}},
        {"name": "tight", "pkg": "./internal/patch", "run": "^TestVerifC03Tight$", "timeout": {"quick": 400, "thorough": 2400},
         "shards": {"quick": 1, "thorough": 2}},
        {"name": "dynamic", "pkg": "./zverif/c03", "run": "^TestVerifC03Dynamic$", "timeout": {"quick": 400, "thorough": 2400},
         "shards": {"quick": 1, "thorough": 12}},
    ],
    "rule": "static half: every function of the test binary (pclntab) x synthetic placeholders mapped before the text, just after it, +16MiB, +256MiB, "
            "+1GiB and near +2GiB; goom's own fixRelativeAddr / fixOriginFuncToTrampoline build the trampoline, which is validated with the reference decoder "
            "(same instructions, same absolute targets, trailing immediates kept, jump back to original+prefix, no branch into the overwritten bytes, "
            "refusals leave function and placeholder unchanged). Non-trivial: a prefix with a PC-relative operand or a widened branch, or a refusal; "
            "distinct by (function, placeholder address). tight placeholders: for a sample of functions the bytes their trampoline needs are computed and "
            "placeholders of need-4..need+3 bytes, each followed directly by a neighbour function, are offered: too small ones must be refused unchanged, "
            "accepted ones must not change a byte of the neighbour. dynamic half: a generated zoo of 20 prologue shapes (RIP-relative load/store/compare with and "
            "without immediates, call-only bodies, tiny loops, huge frames, float constants, jump tables, spills) plus the 120 corpus functions, mocked with "
            "their origin placeholder and a forwarding callback; the written placeholder bytes are validated statically first (never executed if "
            "unfaithful), then the mocked function is called from goroutines of generated stack depth 0..700 and must yield the un-mocked function's "
            "result and side effects with the callback running exactly once; refused applies leave both byte ranges unchanged and the function unmocked. "
            "Half of the cases on functions whose signature occurs more than once use the placeholder of another function of that signature, and 0..3 "
            "functions of the signature are first mocked through the same placeholder, called and reset (a placeholder serves whichever function it was last given to). "
            "In a quarter of the cases the function is already mocked through the same builder (plain callback, callback with this placeholder, or Return stub) when the placeholder is asked for.",
    "assumptions": ["reference decoder is the toolchain's x86asm copy", "placeholders lie within +-2GiB of the function (they are functions of the same text segment)"],
    "floors": [("static", "accepted", 5000), ("static", "refused", 20), ("dynamic", "origin-call", 500), ("dynamic", "origin-call/at-generated-depth", 50),
               ("dynamic", "placeholder-of-another-function", 40), ("dynamic", "placeholder-used-by-other-functions-before", 60),
               ("tight-placeholders", "refused-too-small", 1000), ("tight-placeholders", "accepted", 1000)],
}

PROPS["C01"] = {
    "prepare": [prep_corpus],
    "units": [
        {"name": "histories", "pkg": "./zverif/c01", "run": "^TestVerifC01", "timeout": {"quick": 400, "thorough": 2400},
         "shards": {"quick": 1, "thorough": 16}},
    ],
    "rule": "rapid draws histories of 4..30 operations (apply a compiled closure, apply a reflect.MakeFunc callback, stub with Return, call, GC, churn, reset, drop the builder without reset + GC + heap reuse) "
            "over a window of 4 functions of a generated corpus of 120 functions (signature grammar: 0..20 parameters / 0..5 results over 33 types incl. "
            "register overflow of integer and float registers, stack-passed arrays/structs, variadics; every 8th function is a function literal bound to a package variable); calls use 5 forms (direct, func value, defer, go, "
            "reflect.Call), boundary-biased argument values, optionally from a goroutine that first recursed 20..620 frames. Oracle: the recorder - the "
            "replacement saw the caller's arguments bit-exactly (pointers by identity, floats by bit pattern), the caller received the replacement's / "
            "the stub's results, the original body did not run, the replacement ran exactly once. An applyname operation mocks a function that carries a live Func mock again through Pkg.ExportFunc (the by-name mock must be the one in force; the superseded handle is not used further), and some histories run with OpenDebug. Plus os.Getenv mocked and observed through "
            "os.ExpandEnv (library caller). Non-trivial: a history with a mocked call to a function with parameters or results and a non-zero "
            "argument or result; distinct by the sequence of (function, form, mock kind, value codes).",
    "assumptions": ["functions are compiled with -gcflags=all=-l as goom requires", "generic functions with parameters are not in this corpus (known finding, see C06)"],
    "floors": [("histories", "call/repl", 300), ("histories", "call/ret", 200), ("histories", "call/after-gc", 50),
               ("histories", "call/after-stack-growth", 100), ("histories", "abi/int-overflow", 20), ("histories", "abi/float-overflow", 20),
               ("histories", "call/mock-of-dropped-builder-after-gc", 100)],
}

PROPS["C08"] = {
    "prepare": [prep_corpus],
    "units": [
        {"name": "histories", "pkg": "./zverif/c08", "run": "^TestVerifC08$", "timeout": {"quick": 300, "thorough": 1800},
         "shards": {"quick": 1, "thorough": 16}},
    ],
    "rule": "rapid histories of 1..14 operations (Set, Apply, Cancel, double Cancel, Reset, second Reset, fresh builder) over two of 29 package variables of "
            "every kind (scalars, strings, slices, maps, structs, arrays, pointers, funcs, interfaces incl. nil originals, chan; exported and unexported; "
            "addressed by pointer or by 'package.name'). Oracle after every step: the variable read directly and through a non-inlined accessor holds "
            "the mocked value, after Cancel/Reset bit-exactly the value it had before its first mock in that builder (identity for reference kinds); "
            "no panic. A variable is driven through fresh lookups or through one kept handle; lookup (handle obtained, nothing done) and assign (the program assigns the "
            "variable before its first mock in the builder, possibly after the handle exists) are operations too; for string variables the assigned value is built at run time (25..64 bytes) and referenced by the variable alone (the model keeps clones), and a gc operation (collections, finalizers, refill of the small size classes) may run while variables are mocked: the saved pre-mock value is goom's to keep alive. Non-trivial: a restore after >=2 Sets, a Cancel without Set, or a double restore; distinct by the operation-kind sequence.",
    "assumptions": ["Apply on an unexported-variable mocker and Set(nil) for interface-typed variables are not generated/judged (DESIGN 5.3)"],
    "floors": [("histories", "restore-after->=2-sets", 100), ("histories", "cancel-without-set", 50), ("histories", "by-name", 100), ("histories", "gc-while-a-variable-is-mocked", 100)],
}

PROPS["C06"] = {
    "prepare": [prep_corpus],
    "units": [
        {"name": "methods", "pkg": "./zverif/c06", "run": "^TestVerifC06", "timeout": {"quick": 400, "thorough": 2400},
         "shards": {"quick": 1, "thorough": 16}},
    ],
    "rule": "methods: rapid histories (mock by callback, stub by Return, call, call-every-method-of-the-type-and-its-neighbour-on-every-instance, reset) over "
            "12 generated struct types (8 exported, 4 unexported; 4..7 methods each with pointer/value receivers, exported/unexported names and the prefix "
            "family Get/GetX/GetXY/get), 5 instances per type (heap, static, embedded), plus types of the same names (T00, T01, t08) in a second package used through the same builder, mocked through Struct.Method, Struct.ExportMethod(.As) and "
            "Pkg.ExportStruct.Method(.As). Oracle: model of which (type, method) is mocked; the callback's first argument is the very instance (pointer "
            "identity / bit-exact copy), every other method of every type runs its original body exactly once per call. generics: Return-stubs on "
            "methods/functions of G[T] for T in int,int64,string,*GA,*GB,GS; instantiations of a different GC shape and other methods must be unaffected. "
            "concurrent-methods: 2..4 different methods of one type are mocked at the same moment by goroutines with their own builders (4 rounds); "
            "each named method must then run exactly its own callback. A type named t08 also exists in the harness' own package and is addressed without Pkg(...). A gc operation (two collections, the queued finalizers run, the small size classes refilled) may come between mocking and calling: a mock lives until its builder is reset. "
            "Non-trivial: a history with a call on a mocked method or a call-all sweep while something is mocked; distinct by the op/tag sequence.",
    "assumptions": ["Struct(x) is given the receiver kind the method declares (README)", "callbacks on generic methods/functions are an open known finding: only Return-stubs are judged there"],
    "floors": [("methods", "call/mocked/value-receiver", 50), ("methods", "call/mocked/unexported-method", 50), ("methods", "call/mocked/unexported-type", 30),
               ("methods", "callall", 200), ("methods", "operation-on-same-named-type-of-another-package", 100)],
}

PROPS["C07"] = {
    "prepare": [prep_corpus],
    "units": [
        {"name": "histories", "pkg": "./zverif/c07", "run": "^TestVerifC07$", "timeout": {"quick": 400, "thorough": 2400},
         "shards": {"quick": 1, "thorough": 16}},
    ],
    "rule": "rapid histories of 2..18 operations over one of 8 generated interface types (1..7 methods in arbitrary name order, unexported and embedded "
            "methods) with three variables of that type (initially nil or holding a real implementation) and two builders: mock a method by Apply "
            "(capturing closure) or As().Return, call a method, call every method of every variable, Reset, drop a builder and run GC + heap churn, "
            "GC + churn. Oracle: model {variable -> {slot -> replacement}}: variable non-nil after the first mock; a mocked slot reaches its own "
            "replacement with the caller's arguments; an unmocked slot panics with 'method not implements'; variables are independent; after "
            "Reset the variable's two words equal the pre-mock words; mocks survive dropped builders and collections. Non-trivial: a history with "
            "an unmocked-slot call, a Reset of a mocked variable or a drop+GC; distinct by (interface, op sequence). A copy op hands the mocked value to another "
            "variable of the interface type: it must answer like the first variable (also after re-mocks, dropped builders and collections) until the mock is reset; a never-mocked variable holding such a copy may then be mocked itself, and the source keeps exactly its own stubs.",
    "assumptions": ["process death (e.g. a stub jumping through collected memory) is turned into a violation by re-executing the journalled case"],
    "floors": [("histories", "call/unmocked-slot-panics", 100), ("histories", "call/mocked-slot-after-gc", 100),
               ("histories", "call/mocked-slot-after-builder-dropped", 50), ("histories", "variable-with->=2-mocked-slots", 100),
               ("histories", "instruction-through-a-kept-method-handle", 50), ("histories", "reset-restores-real-implementation-after-gc", 40),
               ("histories", "mocked-value-copied-to-another-variable", 40)],
}

PROPS["C04"] = {
    "units": [
        {"name": "configurations", "pkg": "./zverif/stubs", "run": "^TestVerifC04$", "timeout": {"quick": 300, "thorough": 2400},
         "shards": {"quick": 1, "thorough": 16}},
    ],
    "rule": "rapid draws a target (7 plain functions incl. []string / map[string]int / []int parameters, 4 variadic functions with 0..3 leading fixed parameters, 3 methods with pointer/value receivers incl. a "
            "variadic one, 2 methods of an interface variable incl. a variadic one), a well-formed stub configuration (optional default, then 0..5 clauses: When with per-argument plain value / Any / arg.In, or "
            "In with 1..3 alternative tuples, for variadics also of different lengths, half of the later tuples derived from their predecessor by changing one position) over small overlapping value pools (incl. values that print alike and differ: nil / empty, [\"a b\"] / [\"a\" \"b\"]), and 1..20 hit-biased calls. "
            "Oracle: a reference interpreter (first registered clause all of whose expressions match, counts must agree for variadic tails, else "
            "default, else panic with the 'no suitable condition' message); for plain functions When.Eval must agree with the call. In half of the cases the caller refills every list it passed to When / In / Return / Returns / AndReturn (rows and tuples included) once the configuration is made: the stubs keep what they were given. Non-trivial: a "
            "call decided by a clause other than the first, by the default while clauses exist, or by the no-condition panic; distinct by "
            "(target, number of clauses, default, decision sequence).",
    "assumptions": ["condition values come from the domain where equality is unambiguous (ints, strings, bools, ordinary floats, comparable structs, pointers by pointee, slices by content, interface{} holding ints/strings)"],
    "floors": [("configurations", "decided/later-clause", 500), ("configurations", "caller-refilled-its-lists-after-configuring", 1000), ("configurations", "decided/panic-no-condition", 100), ("configurations", "variadic/1-fixed", 100),
               ("configurations", "variadic/3-fixed", 100), ("configurations", "method", 300), ("configurations", "clause/in", 200), ("configurations", "interface-method", 200)],
}

PROPS["C05"] = {
    "units": [
        {"name": "sequential", "pkg": "./zverif/stubs", "run": "^TestVerifC05$", "timeout": {"quick": 300, "thorough": 2400},
         "shards": {"quick": 1, "thorough": 12}},
        {"name": "concurrent", "pkg": "./zverif/stubs", "run": "^TestVerifC05Concurrent$", "race": True, "timeout": {"quick": 300, "thorough": 2400},
         "shards": {"quick": 1, "thorough": 4}},
        {"name": "growing", "pkg": "./zverif/stubs", "run": "^TestVerifC05Growing$", "timeout": {"quick": 300, "thorough": 2400},
         "shards": {"quick": 1, "thorough": 4}},
    ],
    "rule": "sequential: the C04 configurations with a result sequence of 1..8 elements (distinct, or with runs of repeated neighbouring values) on the default and on every clause (Return+AndReturn, "
            "Returns(...), or Returns(first m) continued with AndReturn) and 5..60 calls selecting stubs in generated interleavings; oracle: one cursor per stub in the reference model (k-th selecting "
            "call gets element k, later ones the last, stubs advance independently); one case in twenty repeats its last call 4200..9000 times; one in ten has 13..40 clauses. growing: a sequence "
            "(default or conditional) extended with AndReturn in 1..6 batches of 1..90 results while calls consume it (never reaching the tail before the last extension), then run past the tail. Sequences on a two-result function are also offered an ill-formed row (refused) in the middle of their construction. concurrent (race build): one stub with 2..64 elements, 2..16 "
            "callers behind a spin barrier with generated yields; oracle sound for any schedule: every value is an element, positions never decrease "
            "within a caller, after a call returning the last element has completed every call started later returns the last, no race report. "
            "Non-trivial (sequential): >=2 stubs with >=2 elements and a call beyond a tail; (concurrent) every round; distinct by configuration and "
            "decision sequence / by (length, goroutines, calls, yield).",
    "assumptions": ["the concurrent half is a seeded stress search: the harness does not own the scheduler"],
    "floors": [("sequential", "sequence/beyond-tail", 500), ("sequential", "caller-refilled-its-lists-after-configuring", 300), ("sequential", "sequence/with-repeated-neighbours", 300), ("sequential", "sequence/returns-then-andreturn", 300), ("concurrent", "rounds-running-past-the-tail", 50)],
}

PROPS["C09"] = {
    "prepare": [prep_corpus],
    "units": [
        {"name": "results", "pkg": "./zverif/c09", "run": "^TestVerifC09", "timeout": {"quick": 300, "thorough": 2400},
         "shards": {"quick": 1, "thorough": 8}},
    ],
    "rule": "results: for every corpus function with results (33 result types) rapid picks per result how the value is supplied to Return: ordinary value "
            "of the declared type (incl. concrete values of several dynamic types for interface results), zero, untyped nil, typed nil, layout-identical "
            "stand-in struct / pointer to one, a value of a different size, a same-size value of another scalar type (counted, not judged). Oracle: the "
            "caller receives bit-exactly the supplied value as the declared type (nil -> typed zero for pointer/interface/slice/map/chan/func, nil error == nil, "
            "dynamic types intact, stand-in bytes / address identical); a wrong-size value makes Return panic. conditions: nil / typed nil / "
            "stand-in values given to When match equal arguments of the declared type and not different ones. condition-histories: 1..3 configuration steps "
            "on one corpus function (half of them variadic), each When(values) / In(tuple, tuple) / When then In on one stub with per-parameter values "
            "supplied as ordinary / nil / stand-in struct / stand-in pointer; calls with independently built equal arguments must yield the condition's "
            "result, a call differing in one scalar argument the default. standin-reuse: 2..6 uses of ONE stand-in struct type (by value and by pointer) for "
            "three declared types of identical layout, as Return values and as When conditions. self-typed-values: values of the types goom computes with "
            "(reflect.Value of 8 payload kinds incl. the zero Value, reflect.Type, []interface{}) as results, boxed into interface{} results and as When conditions; conditions on interface{} parameters with values of different dynamic types that share storage (zero-size structs, empty named strings, nil slices). In half of the result cases the caller refills the list it passed as Return(vals...) before the first call: the stub keeps the values it was given. Distinct by (function, supply kinds, codes).",
    "assumptions": ["same-size values of a different non-struct type are outside the enumerated guarantees"],
    "floors": [("results", "caller-reused-its-result-list-after-Return", 300), ("results", "rejected-wrong-size", 300), ("results", "delivered/untyped-nil/func", 8), ("results", "delivered/standin/struct", 50),
               ("results", "delivered/standin-ptr/ptr", 5), ("results", "delivered/untyped-nil/interface", 50), ("results", "standin/pointer-shaped-struct", 20),
               ("condition-histories", "condhist/multi-step-variadic", 100), ("condition-histories", "condhist/variadic/in", 100),
               ("standin-reuse", "one-stand-in-type-for-several-declared-types", 200)],
}

PROPS["C12"] = {
    "prepare": [prep_corpus],
    "units": [
        {"name": "histories", "pkg": "./zverif/c12", "run": "^TestVerifC12$", "timeout": {"quick": 300, "thorough": 2400},
         "shards": {"quick": 1, "thorough": 16}},
    ],
    "rule": "rapid histories of 2..20 instructions (Apply, Return, When..Return, Cancel, Reset, calls, a distractor builder) over 3 functions, 2 methods, "
            "2 methods of one interface variable, one variable, one function addressed only by name (ExportFunc.As) and one unexported method (Struct.ExportMethod.As), every instruction given through a freshly looked-up handle (Func / Struct.Method / "
            "Interface.Method.As / Var). Oracle: last-writer-wins reference model (Apply -> callback; Return/When on a live stub configuration extends it, "
            "after an Apply or a Cancel/Reset starts a fresh one); after every instruction every target is called and must behave by its most recent "
            "instruction. Two targets live in another package and are addressed only as Pkg(p).ExportFunc(name).As / Pkg(p).ExportStruct(\"*t\").Method(name).As; a gc op "
            "(collection + heap reuse) and a refused interface stub (ill-formed As signature) may come between instructions. Plus a deterministic check that Pkg affects exactly the next lookup. Non-trivial: a history in which some target alternates "
            ">=2 times between callback and stub; distinct by the (op,target) sequence.",
    "assumptions": ["one handle kind per target (Func and ExportFunc on the same function within one builder are not mixed)"],
    "floors": [("histories", "target-with->=2-callback/stub-alternations", 200), ("histories", "pkg-override-next-lookup-only", 1),
               ("histories", "history-with-instructions-through-kept-handles", 200)],
}

PROPS["C13"] = {
    "prepare": [prep_corpus],
    "units": [
        {"name": "mistakes", "pkg": "./zverif/c13", "run": "^TestVerifC13$", "timeout": {"quick": 300, "thorough": 2400},
         "shards": {"quick": 1, "thorough": 8}},
    ],
    "rule": "rapid draws (mistake class, corpus function / struct type / interface, position of the offending item): non-function target; callback with "
            "too few/many parameters or results; parameter/result of different size at position i; When with 1..n-1 arguments; Return with 1..n-1 "
            "values; return value of wrong size at position i; an ill-formed element j of a Returns(...) sequence (wrong size / too few values) on functions, "
            "struct methods and interface methods; unknown method / symbol / method by name; Interface given a non-pointer or a pointer "
            "to a non-interface; interface callback without *IContext, with too few / too many parameters, wrong result count, unknown method; sizes include zero-size types at any position; the function target may be a method expression (*T).M; a too-short condition is also given as the second and third clause of a chain (twice in a row), on variadic targets with two and three fixed parameters too. Oracle: "
            "the configuration call panics or errs; an error's cause chain terminates and reaches the repository's typed cause where one exists "
            "(ArgsNotMatch, ReturnsNotMatch, IllegalParamType); afterwards the executable image is unchanged, the target runs its original body, the "
            "interface variable is untouched and Reset does not panic. Every applicable mistake is non-trivial; distinct by (class, target, position).",
    "assumptions": ["Return() with no values at all is not generated (goom treats it as 'no default yet'; see DESIGN section 5)"],
    "floors": [("mistakes", "class/when-too-few", 30), ("mistakes", "class/ret-too-few", 20), ("mistakes", "class/cb-param-size", 50), ("mistakes", "class/iface-cb-too-few", 30),
               ("mistakes", "class/returns-size", 30), ("mistakes", "class/method-returns-size", 20), ("mistakes", "class/iface-returns-size", 10)],
}

PROPS["C02"] = {
    "prepare": [prep_corpus],
    "units": [
        {"name": "histories", "pkg": "./zverif/c02", "run": "^TestVerifC02", "timeout": {"quick": 400, "thorough": 2400},
         "shards": {"quick": 1, "thorough": 16}},
    ],
    "rule": "rapid histories of 2..25 operations (Apply, Return, Origin+Apply with a forwarding callback, Cancel of one handle, Reset, double Reset, calls of "
            "untouched neighbours) by 3 builders and 2 handle kinds (Func, Pkg.ExportFunc) over a window of 5 corpus functions, most operations hitting "
            "one focus target. After every step the whole executable image is diffed against the pristine snapshot: the difference must lie inside "
            "the 13 entry bytes of targets with a live mocker and the bodies of used origin placeholders; unmocked targets have pristine entry bytes and "
            "run their original body, unambiguously mocked targets show the entry jump and behave by their latest mock; where two owners shared a "
            "target and one restored, only the byte invariant and 'pristine bytes <=> original behaviour' are asserted. After all builders are reset "
            "the image is pristine outside placeholder bodies. method-histories / method-values: the same byte invariant over histories on the methods of one struct (three ways of addressing) and on bound method values handed to Func (names that end in f / m next to their shorter siblings). A further unit puts a refused apply (origin placeholder on a zoo prologue goom cannot relocate) "
            "into histories of apply/stub/reset/cancel by two builders: a refusal after everything was reset must leave pristine entry bytes. After half of the Resets the builder and the handles obtained from it stay in use. Non-trivial: a restore after a re-apply or with a second owner; distinct by window and op sequence.",
    "assumptions": ["calls that reach an origin placeholder run with stack headroom and GC paused (open finding C03/origin-morestack-reentry is excluded by construction)"],
    "floors": [("histories", "history/restore-after-reapply-or-second-owner", 100), ("histories", "history/two-owners-on-one-target", 50),
               ("histories", "history/with-origin-placeholder", 50), ("histories", "instruction-through-a-kept-handle", 100),
               ("refused-applies", "refused-apply-after-all-mocks-were-reset", 50), ("refused-applies", "refused-apply-over-a-live-mock", 50)],
}

PROPS["C14"] = {
    "prepare": [prep_refdecoders],
    "units": [
        {"name": "synthetic", "pkg": "./internal/patch", "run": "^TestVerifC14Synthetic$", "timeout": {"quick": 400, "thorough": 2400},
         "shards": {"quick": 1, "thorough": 8}, "wrap": strace_wrap, "post": c14_post},
        {"name": "real", "pkg": "./internal/patch", "run": "^TestVerifC14Real$", "timeout": {"quick": 400, "thorough": 2400},
         "shards": {"quick": 1, "thorough": 4}, "wrap": strace_wrap, "post": c14_post},
        {"name": "placeholder-bounds", "pkg": "./internal/patch", "run": "^TestVerifC03Tight$", "env": {"VERIF_TIGHT_PROP": "C14"},
         "timeout": {"quick": 400, "thorough": 2400}, "shards": {"quick": 1, "thorough": 2}, "wrap": strace_wrap, "post": c14_post},
    ],
    "rule": "synthetic: rapid lays out a target 'function' (1..200 bytes of straight-line code ending in RET, 0..40 INT3 of padding, a neighbour function "
            "after it) at a generated page offset - including entries 1..13 bytes before a page end - in a never-reused R-X mapping and drives goom's "
            "PtrTrampoline/Guard.Apply/Unpatch and raw memory.WriteTo with generated offsets/lengths across page boundaries (1..9000 bytes, and whole pages +-3 bytes at any offset); real: every function of "
            "ballast packages (go/types, net/http, math/big, text/template, ...) of the test binary is patched and unpatched with the whole text diffed "
            "at each step. Oracle: accepted => exactly the 13 entry bytes differ and hold the jump, neighbours/padding/other pages untouched, too-short "
            "functions refused (and refused again when asked a second and third time), unpatch restores byte-for-byte, /proc/self/maps shows r-xp. A third unit offers origin placeholders of need-4..need+3 bytes directly followed by a neighbour function: the trampoline write must stay "
            "inside the placeholder's own body or be refused. All three units run under strace: every mprotect on the image or "
            "the synthetic arena keeps PROT_EXEC and the last protection of each page is R+X. Non-trivial: entry within 13 bytes of a page end, extent "
            "within +-3 of 13, or a write crossing a page; every patched real function; distinct by layout / function name / page.",
    "assumptions": ["a tiny body glued to its neighbour without padding is not generated (no Go binary contains one)", "ballast functions are never executed by the harness or goom"],
    "floors": [("synthetic", "accepted/entry-within-13-bytes-of-page-end", 200), ("synthetic", "refused/too-short", 100), ("synthetic", "write-crossing-a-page-boundary", 300), ("synthetic", "write-of-whole-pages-at-an-unaligned-address", 40), ("synthetic", "refused/asked-again", 300),
               ("real-binary", "patched-and-restored", 1000), ("strace-synthetic", "mprotect-on-synthetic-arena", 1000), ("strace-real", "mprotect-on-text", 1000),
               ("tight-placeholders", "accepted", 1000), ("tight-placeholders", "refused-too-small", 1000)],
}

PROPS["C11"] = {
    "prepare": [prep_refdecoders, prep_corpus],
    "parallel": 4,
    "units": [
        {"name": "rounds", "pkg": "./zverif/c11", "run": "^TestVerifC11$", "race": True, "timeout": {"quick": 500, "thorough": 3000},
         "shards": {"quick": 1, "thorough": 8}},
        {"name": "preempt-stress", "pkg": "./zverif/c11", "run": "^TestVerifC11Preempt$", "race": True, "timeout": {"quick": 200, "thorough": 400},
         "shards": {"quick": 1, "thorough": 1}},
    ],
    "rule": "race build. rapid draws a round: 2..8 mocker goroutines, each with its own builders, looping apply -> call -> re-stub -> call -> reset -> call "
            "over two corpus functions of its own (all targets contiguous in the text, sharing pages with each other and with code being executed; "
            "some mockers address their targets by name; every third iteration a mocker also mocks a zoo function of its own and re-stubs it with an origin placeholder goom refuses; every mocker also stubs and resets its share of 16 tiny adjacent functions, two per 64-byte line, whose neighbours belong to other mockers; a steady When(k) stub is called with different k by different callers), and 2..8 caller goroutines hammering a steady set mocked before the round (Return stubs and "
            "callbacks forwarding to the origin placeholder of frameless leaves - through frameless leaf placeholders, a pair being admitted only when the runtime's pc->frame-size table of the placeholder agrees with the relocated code at every pc; the generated framed placeholders are judged by the probe of open finding origin-placeholder-frame-metadata), with generated iteration counts and yield points, all released by a "
            "spin barrier. Oracle: no data-race report with a goom frame, no crash, every steady call yields the mocked result, every mocker sees "
            "exactly its own mock after its apply and the original after its reset, at quiescence the text image is pristine (outside placeholder "
            "bodies) and no text page is writable. Every round is non-trivial; distinct by its parameters. preempt-stress: a child process in which 3 callers of origin-forwarding callbacks (pairs the frame-table judge admits) run next to a goroutine starting one collection after the other for 4 s (thorough 25 s), so that every cycle stops each caller at an arbitrary instruction and scans its stack there: the child must survive with right results; the same stress on a framed pair the judge rejects is run and its outcome recorded, not judged (open finding).",
    "assumptions": ["the harness does not own the scheduler: seeded stress under the race detector, sound but incomplete",
                    "race builds use -gcflags=-d=checkptr=0 (the checkptr instrumentation -race turns on aborts inside CreateFuncForCodePtr; that is not a data race)"],
    "floors": [("rounds", "steady-calls", 5000), ("rounds", "mocker-apply-restub-reset-cycles", 500), ("rounds", "steady-origin-callers/Z016", 20)],
}

PROPS["C19"] = {
    "prepare": [prep_refdecoders, prep_corpus],
    "units": [
        {"name": "scenarios", "pkg": "./zverif/c19", "run": "^TestVerifC19$", "timeout": {"quick": 500, "thorough": 3000},
         "shards": {"quick": 1, "thorough": 16}},
    ],
    "rule": "rapid draws a scenario (corpus function mocked by callback / Return / reset and called in several forms; variadic functions with When/Any/In "
            "clauses, result sequences and a variadic callback; a struct method by callback and Return; one live mocker re-applied with sibling closures, bound method values and MakeFunc callbacks; an interface variable with methods mocked by "
            "Apply and As().Return plus an unmocked slot; a callback that panics with a string / error / int / value whose String() panics / nil "
            "dereference; a function over hostile values: rings, nil and typed-nil interfaces, errors whose Error() dereferences nil, Stringers that "
            "panic, structs with unexported pointer/interface/func fields, 200000-element slices, nil **int; and a second one over arrays passed by value ([64]byte, [40]int, "
            "nested arrays in structs, [0]int), maps with nil values, channels, funcs, unsafe.Pointer, complex numbers) and plays it four times: logging off, "
            "OpenDebug, OpenTrace, off again, and for 1 in 8 in a child process started with GOOM_DEBUG=1. Oracle (metamorphic): the transcripts "
            "(calls, arguments recorded by callbacks, results, panic classes; values by content) are identical. Added scenario kinds: text (long, multi-byte, "
            "invalid-UTF-8 and control-character strings / byte slices / error texts of 0..600 bytes as arguments and results) and origin (zoo functions mocked "
            "with an origin placeholder; the trampoline written into the placeholder is validated with the reference decoder before the forwarding callback is run) and timenow (time.Now, which the logger itself calls, mocked in the four documented ways: same result, bounded number of callback runs) and slices ([]byte / []int / []string arguments and results of 0..600 elements around the lengths a renderer abbreviates at: what the caller's slices and the stubbed result slices hold after the calls, and what three consecutive stubbed calls return, is part of the transcript). Every scenario is non-trivial; "
            "distinct by (kind, target, value codes).",
    "assumptions": ["self-containing slices/maps reachable through interface{} are not generated (fmt itself overflows the stack on them)"],
    "floors": [("scenarios", "scenario/hostile", 30), ("scenarios", "scenario/hostile2", 20), ("scenarios", "scenario/reapply", 20), ("scenarios", "scenario/iface", 15), ("scenarios", "scenario/slices", 15), ("scenarios", "transcripts-with-a-panic", 10), ("scenarios", "compared-with-GOOM_DEBUG-child", 5)],
}
