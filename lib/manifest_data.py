BASELINE_OFF = "for m in $(cat /w/out/gomods.txt); do MF=$(cd /repo/$m && . /w/out/goenv.sh && gomodflag); (cd /repo/$m && go test $MF -json -vet=off -count=1 -timeout 25m ./...); done"
NOTES = ("All checks are generated-input searches against explicit oracles (property-based testing / fuzzing). "
         "Every command rebuilds from /repo's working tree into a scratch copy under ${VERIF_SCRATCH:-/var/tmp} that is removed on exit. "
         "Exit 2 = inconclusive (infrastructure, timeout, generator floor not met), never a pass. "
         "known_findings.json lists genuine defects: fixed ones (fix: commits in /repo) and open ones (KNOWN-FINDING lines).")
NOT_YET = {}
CHECKS = {
 "C15": {
  "text": "Exploration: goom's own amd64 emitters (entry jump, trampoline return jump, interface stub jump) and the arm64/386 emitters compiled from the working tree are run over each 16-bit lane of the destination exhaustively, over to-from = +-2^31+-80 exhaustively for drawn bases, and over rapid-drawn pairs; the emitted bytes are decoded by the toolchain's reference decoders and interpreted symbolically (register value, branch target). Right level: the emitters are pure functions of two words, so lane-exhaustive + boundary-exhaustive generation leaves only cross-lane interactions to random search.",
  "design_ref": "DESIGN.md 3/C15",
  "note": "trusted: the toolchain's x86asm/arm64asm copies decode MOV imm/JMP [reg]/JMP rel32/MOVZ/MOVK/LDR/BR correctly; arm64/386 files are compiled on amd64.",
  "technique": "property-based testing (rapid) with exhaustive lane/boundary sweeps; differential symbolic evaluation via reference decoder",
 },
 "C20": {
  "text": "Exploration: in-package test of the stub allocator. rapid-drawn request-size sequences up to and beyond exhaustion, 2..16 spinning concurrent requesters under the race detector, the public Acquire with ordinary and kernel-rejected sizes, and fault injection (children with RLIMIT_AS lowered so every mmap fails and the fallback serves ordinary concurrent requests). Oracle: pairwise disjoint, inside the reserve, >= requested, writable through stub.Write, executable (executed).",
  "design_ref": "DESIGN.md 3/C20",
  "note": "scheduler not owned: the concurrent units are sound seeded stress searches; trusted: /proc/self/maps, RLIMIT_AS semantics.",
  "technique": "property-based testing (rapid) + randomized concurrent stress under -race + rlimit fault injection",
 },
}
