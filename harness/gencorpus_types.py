def emit(seed, outdir):
    pass
