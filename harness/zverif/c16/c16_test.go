//go:build go1.18 && amd64
// +build go1.18,amd64

// Package c16: the bundled x86-64 decoder is total, and exact on compiler-emitted code (property C16).
package c16

import (
	"encoding/binary"
	"encoding/hex"
	"fmt"
	"os"
	"os/exec"
	"path/filepath"
	"runtime"
	"strings"
	"sync"
	"testing"

	"github.com/tencent/goom/internal/arch/x86asm"
	"github.com/tencent/goom/internal/bytecode"
	"github.com/tencent/goom/zverif/vkit"
	refx86 "github.com/tencent/goom/zverif/refx86"
	"pgregory.net/rapid"
)

type bytesCase struct {
	Hex string `json:"hex"`
}

// totality invariants on one byte string
func totality(src []byte) (err error) {
	defer func() {
		if r := recover(); r != nil {
			err = fmt.Errorf("decoder panicked on % x: %v", src, r)
		}
	}()
	in, derr := x86asm.Decode(src, 64)
	if derr != nil {
		if in.Len < 0 || in.Len > len(src) {
			return fmt.Errorf("error result reports Len=%d for %d input bytes (% x)", in.Len, len(src), src)
		}
		return nil
	}
	max := 15
	if len(src) < max {
		max = len(src)
	}
	if in.Len < 1 || in.Len > max {
		return fmt.Errorf("Len=%d outside 1..%d for % x", in.Len, max, src)
	}
	if in.PCRel != 0 {
		if in.PCRelOff <= 0 || in.PCRelOff+in.PCRel > in.Len {
			return fmt.Errorf("PC-relative field [%d,+%d) is not inside the %d-byte instruction % x", in.PCRelOff, in.PCRel, in.Len, src)
		}
		if in.PCRel != 1 && in.PCRel != 2 && in.PCRel != 4 {
			return fmt.Errorf("PC-relative width %d for % x", in.PCRel, src)
		}
	}
	_ = in.String()
	return nil
}

func shape(src []byte, in x86asm.Inst) string {
	n := in.Len
	if n > 4 {
		n = 4
	}
	return fmt.Sprintf("%x/%v/%d/%d", src[:n], in.Op, in.PCRel, in.Len)
}

func runBytes(ci interface{}, s *vkit.Stats) error {
	c := ci.(*bytesCase)
	src, err := hex.DecodeString(c.Hex)
	if err != nil {
		return nil
	}
	if err := totality(src); err != nil {
		return err
	}
	in, derr := x86asm.Decode(src, 64)
	if derr == nil {
		s.Class("decodable")
		s.NonTrivial(shape(src, in))
		if in.PCRel != 0 {
			s.Class("decodable-pcrel")
		}
	} else {
		s.Class("rejected")
	}
	s.Sample(c)
	return nil
}

// structured generator: legacy prefixes, REX, opcode (1-3 byte maps), ModRM/SIB/disp/imm
func genInstrBytes() *rapid.Generator[[]byte] {
	return rapid.Custom(func(t *rapid.T) []byte {
		var b []byte
		np := rapid.IntRange(0, 3).Draw(t, "nprefix")
		if rapid.IntRange(0, 7).Draw(t, "long-prefix-run") == 0 {
			np = rapid.IntRange(4, 15).Draw(t, "nprefix-long") // prefix runs up to and beyond the decoder's prefix table (14 entries)
		}
		pf := []byte{0x66, 0x67, 0xf0, 0xf2, 0xf3, 0x2e, 0x36, 0x3e, 0x26, 0x64, 0x65}
		for i := 0; i < np; i++ {
			b = append(b, rapid.SampledFrom(pf).Draw(t, "prefix"))
		}
		if rapid.Bool().Draw(t, "rex") {
			b = append(b, byte(0x40|rapid.IntRange(0, 15).Draw(t, "rexbits")))
		}
		switch rapid.IntRange(0, 5).Draw(t, "map") {
		case 0, 1, 2:
			b = append(b, rapid.Byte().Draw(t, "op"))
		case 3:
			b = append(b, 0x0f, rapid.Byte().Draw(t, "op2"))
		case 4:
			b = append(b, 0x0f, 0x38, rapid.Byte().Draw(t, "op3"))
		case 5:
			b = append(b, 0x0f, 0x3a, rapid.Byte().Draw(t, "op3"))
		}
		modrm := rapid.Byte().Draw(t, "modrm")
		if rapid.IntRange(0, 3).Draw(t, "riprel") == 0 {
			modrm = modrm&0x38 | 0x05 // mod=00 rm=101: RIP-relative
		}
		b = append(b, modrm)
		b = append(b, rapid.SliceOfN(rapid.Byte(), 0, 10).Draw(t, "rest")...)
		if len(b) > 16 {
			b = b[:16]
		}
		return b
	})
}

var realInstrs [][]byte // filled by the exactness walk of the own binary (seed material for mutation)
var realOnce sync.Once
var realLong [][]byte
var longOnce sync.Once

func loadReal() {
	realOnce.Do(func() {
		im, err := vkit.LoadImage("/proc/self/exe")
		if err != nil {
			return
		}
		for i, f := range im.Funcs {
			if i%7 != 0 {
				continue
			}
			code := im.Bytes(f)
			for pos := 0; pos < len(code) && len(realInstrs) < 60000; {
				in, err := refx86.Decode(code[pos:], 64)
				if err != nil {
					break
				}
				realInstrs = append(realInstrs, append([]byte(nil), code[pos:pos+in.Len]...))
				pos += in.Len
			}
		}
	})
}

func TestVerifC16Totality(t *testing.T) {
	loadReal()
	p := &vkit.Prop{ID: "C16", Unit: "totality",
		New: func() interface{} { return &bytesCase{} },
		Gen: func(rt *rapid.T) interface{} {
			var b []byte
			switch rapid.IntRange(0, 3).Draw(rt, "kind") {
			case 0:
				b = rapid.SliceOfN(rapid.Byte(), 0, 16).Draw(rt, "raw")
			case 1, 2:
				b = genInstrBytes().Draw(rt, "structured")
			default:
				if len(realInstrs) == 0 {
					b = genInstrBytes().Draw(rt, "structured")
					break
				}
				// a real instruction with mutated bytes and a random tail / truncation
				src := realInstrs[rapid.IntRange(0, len(realInstrs)-1).Draw(rt, "real")]
				b = append([]byte(nil), src...)
				for k := rapid.IntRange(0, 3).Draw(rt, "nmut"); k > 0; k-- {
					i := rapid.IntRange(0, len(b)-1).Draw(rt, "at")
					b[i] = rapid.Byte().Draw(rt, "byte")
				}
				if rapid.Bool().Draw(rt, "truncate") {
					b = b[:rapid.IntRange(0, len(b)).Draw(rt, "cut")]
				} else {
					b = append(b, rapid.SliceOfN(rapid.Byte(), 0, 16-len(b)).Draw(rt, "tail")...)
				}
			}
			return &bytesCase{Hex: hex.EncodeToString(b)}
		},
		Run: runBytes}
	s := p.Main(t, vkit.Scale(400000, 6000000))
	if !vkit.Replaying() {
		s.Done()
	}
}

// ---- windows: the answer for a byte string does not depend on what was decoded before ----

type windowCase struct {
	Hex string `json:"hex"`
}

type decoded struct {
	len  int
	op   string
	rel  [2]int
	fail bool
}

func decodeOnce(src []byte) decoded {
	in, err := x86asm.Decode(src, 64)
	return decoded{in.Len, in.Op.String(), [2]int{in.PCRelOff, in.PCRel}, err != nil}
}

// runWindow decodes every proper prefix of a byte string, then the whole string, then every prefix again: each answer must
// satisfy the totality invariants for the bytes actually supplied and equal the answer given the first time.
func runWindow(ci interface{}, s *vkit.Stats) error {
	c := ci.(*windowCase)
	src, err := hex.DecodeString(c.Hex)
	if err != nil || len(src) == 0 {
		return nil
	}
	first := make([]decoded, len(src)+1)
	for pass := 0; pass < 2; pass++ {
		for cut := 0; cut <= len(src); cut++ {
			w := src[:cut:cut]
			if err := totality(w); err != nil {
				return fmt.Errorf("window of %d bytes of % x (pass %d): %v", cut, src, pass, err)
			}
			d := decodeOnce(w)
			if pass == 0 {
				first[cut] = d
			} else if d != first[cut] {
				return fmt.Errorf("window % x decoded as %+v before and as %+v after its extension % x was decoded", w, first[cut], d, src)
			}
		}
	}
	full := first[len(src)]
	if !full.fail {
		s.Class("window/decodable")
		if full.len >= 9 {
			s.Class("window/long-instruction")
			if src[full.len-1] == 0 && src[full.len-2] == 0 {
				s.Class("window/long-zero-tail")
			}
		}
		s.NonTrivial(fmt.Sprintf("%x", src[:full.len]))
	}
	return nil
}

func TestVerifC16Windows(t *testing.T) {
	loadReal()
	p := &vkit.Prop{ID: "C16", Unit: "windows",
		New: func() interface{} { return &windowCase{} },
		Gen: func(rt *rapid.T) interface{} {
			var b []byte
			if len(realInstrs) == 0 || rapid.IntRange(0, 4).Draw(rt, "kind") == 0 {
				b = genInstrBytes().Draw(rt, "structured")
			} else {
				src := realInstrs[rapid.IntRange(0, len(realInstrs)-1).Draw(rt, "real")]
				if rapid.Bool().Draw(rt, "long") {
					// prefer long encodings (immediates / displacements at the end)
					var long [][]byte
					longOnce.Do(func() {
						for _, r := range realInstrs {
							if len(r) >= 9 {
								realLong = append(realLong, r)
							}
						}
					})
					if long = realLong; len(long) > 0 {
						src = long[rapid.IntRange(0, len(long)-1).Draw(rt, "real-long")]
					}
				}
				b = append([]byte(nil), src...)
				switch rapid.IntRange(0, 3).Draw(rt, "tailmut") {
				case 0: // zero the trailing operand bytes
					for i := len(b) - rapid.IntRange(1, 4).Draw(rt, "nzero"); i < len(b); i++ {
						if i > 0 {
							b[i] = 0
						}
					}
				case 1:
					b[len(b)-1] = rapid.Byte().Draw(rt, "last")
				}
				if rapid.Bool().Draw(rt, "tail") {
					b = append(b, rapid.SliceOfN(rapid.Byte(), 0, 16-len(b)).Draw(rt, "tailbytes")...)
				}
			}
			return &windowCase{Hex: hex.EncodeToString(b)}
		},
		Run: runWindow}
	s := p.Main(t, vkit.Scale(60000, 1000000))
	if !vkit.Replaying() {
		s.Done()
	}
}

// ---- exactness on compiler-emitted code ----

type instrCase struct {
	Binary string `json:"binary"`
	Func   string `json:"func"`
	Off    int    `json:"offset"`
	Hex    string `json:"hex"`
	Mut    string `json:"mutated_disp,omitempty"`
}

// refSigned is the architectural meaning of the PC-relative field the reference
// located: a little-endian two's-complement value of PCRel bytes (rel8/rel16/rel32
// and RIP-relative disp32 are all sign-extended in 64-bit mode). The reference's
// own Mem.Disp is not used: upstream zero-extends disp32 there.
func refSigned(in refx86.Inst, code []byte) (int64, bool) {
	if in.PCRel == 0 || in.PCRelOff+in.PCRel > len(code) {
		return 0, false
	}
	f := code[in.PCRelOff:]
	switch in.PCRel {
	case 1:
		return int64(int8(f[0])), true
	case 2:
		return int64(int16(binary.LittleEndian.Uint16(f))), true
	case 4:
		return int64(int32(binary.LittleEndian.Uint32(f))), true
	}
	return 0, false
}

// compare goom's decoder and its consumers with the reference on one instruction
func exact(code []byte) error {
	ref, rerr := refx86.Decode(code, 64)
	if rerr != nil {
		return nil // no oracle
	}
	var in x86asm.Inst
	var derr error
	func() {
		defer func() {
			if r := recover(); r != nil {
				derr = fmt.Errorf("panic: %v", r)
			}
		}()
		in, derr = x86asm.Decode(code, 64)
	}()
	if derr != nil {
		return fmt.Errorf("goom's decoder fails (%v) where the reference decodes %v", derr, ref)
	}
	if in.Len != ref.Len {
		return fmt.Errorf("instruction boundary differs: goom Len=%d, reference Len=%d (%v)", in.Len, ref.Len, ref)
	}
	if in.Op.String() != ref.Op.String() {
		return fmt.Errorf("opcode differs: goom %v, reference %v", in.Op, ref.Op)
	}
	if in.PCRel != ref.PCRel || in.PCRelOff != ref.PCRelOff {
		return fmt.Errorf("PC-relative field differs: goom [%d,+%d), reference [%d,+%d) (%v)", in.PCRelOff, in.PCRel, ref.PCRelOff, ref.PCRel, ref)
	}
	if ref.PCRel != 0 {
		want, ok := refSigned(ref, code)
		if ok {
			got := bytecode.DecodeRelativeAddr(&in, code, in.PCRelOff)
			if int64(got) != want {
				return fmt.Errorf("goom reads the displacement of %v as %d, the reference as %d", ref, got, want)
			}
		}
	}
	return nil
}

var dispMut = []int64{0, 1, -1, 2, -2, 0x7f, -0x80, 0x80, -0x81, 0xff, 0x7fff, -0x8000, 0x8000, 0xffff, 0x7fffffff, -0x80000000, 0x12345678, -0x12345678}

func putDisp(b []byte, w int, v int64) {
	switch w {
	case 1:
		b[0] = byte(v)
	case 2:
		binary.LittleEndian.PutUint16(b, uint16(v))
	case 4:
		binary.LittleEndian.PutUint32(b, uint32(v))
	}
}

func runInstr(ci interface{}, s *vkit.Stats) error {
	c := ci.(*instrCase)
	code, _ := hex.DecodeString(c.Hex)
	return exact(code)
}

func binaries() []string {
	root := runtime.GOROOT()
	if out, err := exec.Command("go", "env", "GOROOT").Output(); err == nil {
		root = strings.TrimSpace(string(out))
	}
	list := []string{"/proc/self/exe", filepath.Join(root, "bin/go")}
	if vkit.Thorough() {
		for _, n := range []string{"compile", "link", "asm", "vet", "cgo", "objdump", "pprof", "trace", "doc", "cover"} {
			list = append(list, filepath.Join(root, "pkg/tool/linux_amd64", n))
		}
		list = append(list, "/usr/local/bin/staticcheck", "/usr/local/bin/nilaway", "/opt/veriftools/go1.26.8/bin/go",
			"/opt/veriftools/go1.26.8/pkg/tool/linux_amd64/compile", "/opt/veriftools/go1.26.8/pkg/tool/linux_amd64/link")
	} else {
		list = append(list, filepath.Join(root, "pkg/tool/linux_amd64/asm"))
	}
	return list
}

func TestVerifC16Exact(t *testing.T) {
	p := &vkit.Prop{ID: "C16", Unit: "exact", New: func() interface{} { return &instrCase{} }, Run: runInstr}
	if vkit.Replaying() {
		p.Main(t, 0)
		return
	}
	s := vkit.NewStats("C16", "exact")
	defer s.Flush()
	sh, nsh := vkit.Shard()
	for bi, path := range binaries() {
		im, err := vkit.LoadImage(path)
		if err != nil || len(im.Funcs) == 0 {
			s.Note("binary %s skipped: %v", path, err)
			continue
		}
		name := filepath.Base(path)
		if path == "/proc/self/exe" {
			name = "test-binary"
		}
		var instrs, funcs, skippedFuncs, mutated int64
		type job struct{ lo, hi int }
		jobs := make(chan job, 64)
		var wg sync.WaitGroup
		var mu sync.Mutex
		var firstErr error
		var firstCase *instrCase
		workers := runtime.NumCPU()
		for w := 0; w < workers; w++ {
			wg.Add(1)
			go func() {
				defer wg.Done()
				local := map[uint64]struct{}{}
				var li, lf, ls, lm int64
				for j := range jobs {
					for fi := j.lo; fi < j.hi; fi++ {
						f := im.Funcs[fi]
						code := im.Bytes(f)
						lf++
						for pos := 0; pos < len(code); {
							end := pos + 16
							if end > len(code) {
								end = len(code)
							}
							// like goom's own scanners, the decoders see up to 16 bytes, possibly beyond the function's end
							win := im.Text[int(f.Entry-im.TextAddr)+pos:]
							if len(win) > 16 {
								win = win[:16]
							}
							ref, rerr := refx86.Decode(win, 64)
							if rerr != nil {
								ls++
								break
							}
							if err := exact(win); err != nil {
								mu.Lock()
								if firstErr == nil {
									firstErr = fmt.Errorf("%s %s+%d: %v", name, f.Name, pos, err)
									firstCase = &instrCase{Binary: path, Func: f.Name, Off: pos, Hex: hex.EncodeToString(win)}
								}
								mu.Unlock()
								break
							}
							li++
							n := ref.Len
							if n > 3 {
								n = 3
							}
							k := uint64(ref.Op)<<40 | uint64(ref.PCRel)<<32 | uint64(ref.Len)<<24
							for q := 0; q < n; q++ {
								k |= uint64(win[q]) << (8 * uint(q))
							}
							local[k] = struct{}{}
							// operand mutation keeps the instruction: agreement must persist
							if ref.PCRel != 0 && (li%5 == 0) {
								m := append([]byte(nil), win...)
								for _, v := range dispMut {
									putDisp(m[ref.PCRelOff:], ref.PCRel, v)
									lm++
									if err := exact(m); err != nil {
										mu.Lock()
										if firstErr == nil {
											firstErr = fmt.Errorf("%s %s+%d with displacement %#x: %v", name, f.Name, pos, v, err)
											firstCase = &instrCase{Binary: path, Func: f.Name, Off: pos, Hex: hex.EncodeToString(m), Mut: fmt.Sprint(v)}
										}
										mu.Unlock()
										break
									}
								}
							}
							pos += ref.Len
						}
					}
				}
				mu.Lock()
				instrs += li
				funcs += lf
				skippedFuncs += ls
				mutated += lm
				for k := range local {
					s.NonTrivialU(k)
				}
				mu.Unlock()
			}()
		}
		for lo := 0; lo < len(im.Funcs); lo += 64 {
			if (lo/64+bi)%nsh != sh {
				continue
			}
			hi := lo + 64
			if hi > len(im.Funcs) {
				hi = len(im.Funcs)
			}
			jobs <- job{lo, hi}
		}
		close(jobs)
		wg.Wait()
		s.Eval(int(instrs + mutated))
		s.ClassN("instructions/"+name, int(instrs))
		s.ClassN("functions/"+name, int(funcs))
		s.ClassN("displacement-mutants", int(mutated))
		s.Excluded["function-tail-after-reference-decode-failure/"+name] += skippedFuncs
		if firstErr != nil {
			s.Violation(firstErr.Error(), firstCase)
			t.Fatalf("%v", firstErr)
		}
		if len(s.Samples) < 6 && len(im.Funcs) > 10 {
			f := im.Funcs[len(im.Funcs)/3]
			code := im.Bytes(f)
			n := 16
			if len(code) < n {
				n = len(code)
			}
			s.Sample(&instrCase{Binary: path, Func: f.Name, Off: 0, Hex: hex.EncodeToString(code[:n])})
		}
	}
	s.Completed = true
}

// FuzzVerifC16 — coverage-guided totality search (thorough tier).
func FuzzVerifC16(f *testing.F) {
	loadReal()
	for i := 0; i < len(realInstrs) && i < 3000; i += 7 {
		f.Add(realInstrs[i])
	}
	f.Add([]byte{0x0f, 0x38, 0xf0, 0x05, 0, 0, 0, 0})
	f.Add([]byte{0x66, 0x48, 0x0f, 0x3a, 0x16, 0xc0, 0x01})
	f.Add([]byte{0xf0, 0xf2, 0xf3, 0x66, 0x67, 0x2e, 0x36, 0x3e, 0x26, 0x64, 0x65, 0x40, 0x90})
	f.Fuzz(func(t *testing.T, b []byte) {
		if len(b) > 16 {
			b = b[:16]
		}
		if err := totality(b); err != nil {
			c := &bytesCase{Hex: hex.EncodeToString(b)}
			st := vkit.NewStats("C16", "totality") // same unit as the rapid check: its replay path runs the saved input
			st.Violation(err.Error(), c)
			t.Fatal(err)
		}
	})
}

func TestMain(m *testing.M) { os.Exit(m.Run()) }
