//go:build go1.18 && amd64
// +build go1.18,amd64

// Package c06: method mocks replace exactly the named method for every instance (property C06).
package c06

import (
	"strconv"
	"fmt"
	"os"
	"reflect"
	"strings"
	"sync"
	"sync/atomic"
	"testing"

	mocker "github.com/tencent/goom"
	"github.com/tencent/goom/zverif/corpus"
	"github.com/tencent/goom/zverif/corpusb"
	"github.com/tencent/goom/zverif/vkit"
	"pgregory.net/rapid"
)

type histCase struct {
	Ops []vkit.Op `json:"ops"`
}

type mstate struct {
	kind string // "" | repl | ret
	rec  *corpus.Rec
	ret  []reflect.Value
}

func guard(f func()) (pv interface{}) {
	defer func() { pv = recover() }()
	f()
	return nil
}

func margs(m *corpus.Method, code int64) []reflect.Value {
	// FuncType is func(recv, args...) results
	n := m.FuncType.NumIn() - 1
	a := make([]reflect.Value, n)
	for i := 0; i < n; i++ {
		a[i] = vkit.Value(m.FuncType.In(i+1), uint64(code)+uint64(i)*5)
	}
	return a
}

func mresults(m *corpus.Method, code int64) []reflect.Value {
	r := make([]reflect.Value, m.FuncType.NumOut())
	for i := range r {
		r[i] = vkit.Value(m.FuncType.Out(i), uint64(code)+uint64(i)*3+1)
	}
	return r
}

func descAll(vs []reflect.Value) string {
	var p []string
	for _, v := range vs {
		p = append(p, vkit.Describe(v))
	}
	return "(" + strings.Join(p, ", ") + ")"
}

// handle obtains the mocker for method m the way a user would, by the kind of type and method
func apply(b *mocker.Builder, m *corpus.Method, how int, cb interface{}, ret []interface{}) string {
	t := m.Type
	arg := t.ValArg
	star := ""
	if m.Ptr {
		arg = t.PtrArg
		star = "*"
	}
	byName := !t.Exported || how%3 == 2
	pkg := corpus.PkgPath
	if m.Tag >= 9000 {
		pkg = corpusb.PkgPath
	}
	switch {
	case m.Tag >= 18000:
		// a type of the calling package: no Pkg(...), the builder falls back to the package it was created in
		um := b.ExportStruct(star + t.Name).Method(m.Name)
		if cb != nil {
			um.Apply(cb)
			return "ExportStruct(current package).Method.Apply"
		}
		um.As(m.As).Return(ret...)
		return "ExportStruct(current package).Method.As.Return"
	case byName:
		um := b.Pkg(pkg).ExportStruct(star + t.Name).Method(m.Name)
		if cb != nil {
			um.Apply(cb)
			return "ExportStruct.Method.Apply"
		}
		um.As(m.As).Return(ret...)
		return "ExportStruct.Method.As.Return"
	case m.Exported:
		em := b.Struct(arg).Method(m.Name)
		if cb != nil {
			em.Apply(cb)
			return "Struct.Method.Apply"
		}
		em.Return(ret...)
		return "Struct.Method.Return"
	default:
		um := b.Struct(arg).ExportMethod(m.Name)
		if cb != nil {
			um.Apply(cb)
			return "Struct.ExportMethod.Apply"
		}
		um.As(m.As).Return(ret...)
		return "Struct.ExportMethod.As.Return"
	}
}


// ---- a type of the harness' own package with the name of corpus.t08 / corpusb.t08: addressed WITHOUT Pkg(...) ----

type t08 struct{ N int }

var localRan [4]int64

//go:noinline
func (r *t08) Get(a0 int) int { localRan[0]++; return r.N*7 + a0 }

//go:noinline
func (r *t08) get() int { localRan[1]++; return r.N * 11 }

var instLocal = [5]*t08{{1}, {2}, {3}, {4}, {5}}

func lbox[T any](v T) reflect.Value {
	p := new(T)
	*p = v
	return reflect.ValueOf(p).Elem()
}

func las[T any](v reflect.Value) T {
	var z T
	if v.IsValid() {
		reflect.ValueOf(&z).Elem().Set(v)
	}
	return z
}

var localTypes []*corpus.TypeInfo

func init() {
	t := &corpus.TypeInfo{Name: "t08", Exported: false, PtrArg: &t08{}, ValArg: t08{}, Type: reflect.TypeOf(t08{}),
		Instance: func(i int) interface{} { return instLocal[i%5] }}
	ms := []*corpus.Method{
		{Tag: 18020, Name: "Get", Ptr: true, Exported: true, Ran: &localRan[0],
			Call: func(i int, a []reflect.Value) []reflect.Value { return []reflect.Value{lbox(instLocal[i%5].Get(las[int](a[0])))} },
			MkRepl: func(rec *corpus.Rec) interface{} {
				return func(r *t08, a0 int) int { rec.Calls++; rec.Args = []reflect.Value{lbox(r), lbox(a0)}; return las[int](rec.Res[0]) }
			},
			As: func(r *t08, a0 int) (r0 int) { vkit.Sink(31); return }},
		{Tag: 18021, Name: "get", Ptr: true, Exported: false, Ran: &localRan[1],
			Call: func(i int, a []reflect.Value) []reflect.Value { return []reflect.Value{lbox(instLocal[i%5].get())} },
			MkRepl: func(rec *corpus.Rec) interface{} {
				return func(r *t08) int { rec.Calls++; rec.Args = []reflect.Value{lbox(r)}; return las[int](rec.Res[0]) }
			},
			As: func(r *t08) (r0 int) { vkit.Sink(32); return }},
	}
	for _, m := range ms {
		m.Type = t
		m.FuncType = reflect.TypeOf(m.As)
	}
	t.Methods = ms
	localTypes = append(localTypes, t)
}

// localTwin returns the type of the harness' own package that has the same name as t
func localTwin(t *corpus.TypeInfo) *corpus.TypeInfo {
	for _, x := range localTypes {
		if x.Name == t.Name {
			return x
		}
	}
	return nil
}

// twin returns the type of package corpusb that has the same name as t
func twin(t *corpus.TypeInfo) *corpus.TypeInfo {
	for _, x := range corpusb.Types {
		if x.Name == t.Name {
			return x
		}
	}
	return nil
}

func runHist(ci interface{}, s *vkit.Stats) error {
	c := ci.(*histCase)
	b := mocker.Create()
	defer func() { b.Reset() }()
	st := map[int]*mstate{}
	var fp []string
	nontrivial := false
	// one way of addressing a method per history (Struct.Method / Struct.ExportMethod vs Pkg.ExportStruct.Method): two handle
	// kinds on one target in one builder are two independent mockers, which no property describes
	howOf := map[int]int{}
	howFor := func(m *corpus.Method, drawn int64) int {
		if h, ok := howOf[m.Tag]; ok {
			return h
		}
		howOf[m.Tag] = int(drawn & 0xff)
		return howOf[m.Tag]
	}
	// callOne calls method m on instance inst and checks it against the model
	callOne := func(step int, m *corpus.Method, inst int, code int64) error {
		t := st[m.Tag]
		if t == nil {
			t = &mstate{}
		}
		args := margs(m, code)
		ranBefore := *m.Ran
		calls := 0
		if t.rec != nil {
			calls = t.rec.Calls
			t.rec.Res = mresults(m, code+11)
			t.rec.Args = nil
		}
		var got []reflect.Value
		if pv := guard(func() { got = m.Call(inst, args) }); pv != nil {
			return fmt.Errorf("step %d: calling %s.%s on instance %d panicked: %v", step, m.Type.Name, m.Name, inst, pv)
		}
		where := fmt.Sprintf("step %d: %s.%s (ptr=%v) on instance %d with %s", step, m.Type.Name, m.Name, m.Ptr, inst, descAll(args))
		ran := *m.Ran - ranBefore
		switch t.kind {
		case "":
			if ran != 1 {
				return fmt.Errorf("%s: not mocked, but its original body ran %d times (another mock hit it?)", where, ran)
			}
		case "repl":
			if ran != 0 {
				return fmt.Errorf("%s: mocked with a callback but the original ran", where)
			}
			if d := t.rec.Calls - calls; d != 1 {
				return fmt.Errorf("%s: replacement ran %d times", where, d)
			}
			if len(t.rec.Args) != len(args)+1 {
				return fmt.Errorf("%s: replacement recorded %d arguments", where, len(t.rec.Args))
			}
			recv := t.rec.Args[0]
			instPtr := reflect.ValueOf(m.Type.Instance(inst))
			if m.Ptr {
				if recv.Pointer() != instPtr.Pointer() {
					return fmt.Errorf("%s: callback received receiver %#x, the instance is %#x", where, recv.Pointer(), instPtr.Pointer())
				}
			} else if !vkit.Same(recv, instPtr.Elem()) {
				return fmt.Errorf("%s: callback received receiver %s, the instance is %s", where, vkit.Describe(recv), vkit.Describe(instPtr.Elem()))
			}
			for i := range args {
				if !vkit.Same(args[i], t.rec.Args[i+1]) {
					return fmt.Errorf("%s: callback saw argument %d as %s", where, i, vkit.Describe(t.rec.Args[i+1]))
				}
			}
			for i := range got {
				if !vkit.Same(got[i], t.rec.Res[i]) {
					return fmt.Errorf("%s: callback returned %s, caller got %s", where, descAll(t.rec.Res), descAll(got))
				}
			}
		case "ret":
			if ran != 0 {
				return fmt.Errorf("%s: stubbed with Return but the original ran", where)
			}
			for i := range got {
				if !vkit.Same(got[i], t.ret[i]) {
					return fmt.Errorf("%s: stub configured %s, caller got %s", where, descAll(t.ret), descAll(got))
				}
			}
		}
		return nil
	}
	for step, op := range c.Ops {
		for len(op.I) < 5 {
			op.I = append(op.I, 0)
		}
		ti := vkit.Pick(op.I[4], len(corpus.Types))
		t := corpus.Types[ti]
		switch vkit.Pick(op.I[0], 6) {
		case 5:
			if tw := localTwin(t); tw != nil {
				t = tw // the type of the same name in the harness' own package, addressed without Pkg(...)
				s.Class("operation-on-same-named-type-of-the-current-package")
			} else if tw := twin(t); tw != nil {
				t = tw
				s.Class("operation-on-same-named-type-of-another-package")
			}
		case 4:
			ti = (ti + 1) % len(corpus.Types) // the distractor type
			t = corpus.Types[ti]
		case 3:
			if tw := twin(t); tw != nil {
				t = tw // the type of the same name in another package, through the same builder
				s.Class("operation-on-same-named-type-of-another-package")
			}
		}
		m := t.Methods[vkit.Pick(op.I[1], len(t.Methods))]
		switch op.K {
		case "apply":
			rec := &corpus.Rec{}
			var how string
			if pv := guard(func() { how = apply(b, m, howFor(m, op.I[2]), m.MkRepl(rec), nil) }); pv != nil {
				return fmt.Errorf("step %d: mocking %s.%s (ptr=%v) with a callback panicked: %v", step, t.Name, m.Name, m.Ptr, pv)
			}
			st[m.Tag] = &mstate{kind: "repl", rec: rec}
			s.Class("mock/" + how)
			fp = append(fp, fmt.Sprintf("a%d", m.Tag))
		case "ret":
			res := mresults(m, op.I[3])
			vals := make([]interface{}, len(res))
			for i := range res {
				vals[i] = res[i].Interface()
			}
			if old := st[m.Tag]; old != nil && old.kind == "ret" {
				continue // a second Return would extend the sequence (property C05); keep this model simple
			}
			var how string
			if pv := guard(func() { how = apply(b, m, howFor(m, op.I[2]), nil, vals) }); pv != nil {
				return fmt.Errorf("step %d: stubbing %s.%s (ptr=%v) panicked: %v", step, t.Name, m.Name, m.Ptr, pv)
			}
			st[m.Tag] = &mstate{kind: "ret", ret: res}
			s.Class("mock/" + how)
			fp = append(fp, fmt.Sprintf("r%d", m.Tag))
		case "call":
			inst := vkit.Pick(op.I[2], corpus.NumInstances)
			if err := callOne(step, m, inst, op.I[3]); err != nil {
				return err
			}
			if x := st[m.Tag]; x != nil && x.kind != "" {
				s.Class("call/mocked")
				if m.Ptr {
					s.Class("call/mocked/pointer-receiver")
				} else {
					s.Class("call/mocked/value-receiver")
				}
				if !m.Exported {
					s.Class("call/mocked/unexported-method")
				}
				if !t.Exported {
					s.Class("call/mocked/unexported-type")
				}
				nontrivial = true
			}
		case "callall":
			// every method of the type and of its neighbour type, on every instance: only what the model says is mocked may differ
			sweep := []*corpus.TypeInfo{t, corpus.Types[(ti+1)%len(corpus.Types)]}
			if tw := twin(corpus.Types[vkit.Pick(op.I[4], len(corpus.Types))]); tw != nil {
				sweep = append(sweep, tw)
			}
			if tw := localTwin(corpus.Types[vkit.Pick(op.I[4], len(corpus.Types))]); tw != nil {
				sweep = append(sweep, tw)
			}
			for _, tt := range sweep {
				for _, mm := range tt.Methods {
					for inst := 0; inst < corpus.NumInstances; inst++ {
						if err := callOne(step, mm, inst, op.I[3]+int64(inst)); err != nil {
							return err
						}
					}
				}
			}
			s.Class("callall")
			if len(st) > 0 {
				nontrivial = true
			}
			fp = append(fp, "all")
		case "gc":
			// collections, finalizers and heap reuse between mocking and calling: a mock lives until its builder is reset
			vkit.GC()
			vkit.ChurnSmall(15000)
			if len(st) > 0 {
				s.Class("gc-with-live-method-mocks")
			}
			fp = append(fp, "gc")
		case "reset":
			b.Reset()
			b = mocker.Create()
			st = map[int]*mstate{}
			howOf = map[int]int{}
			fp = append(fp, "reset")
		}
	}
	b.Reset()
	b = mocker.Create()
	st = map[int]*mstate{}
	// after Reset everything is original
	for _, op := range c.Ops {
		if len(op.I) >= 5 {
			t := corpus.Types[vkit.Pick(op.I[4], len(corpus.Types))]
			for _, mm := range t.Methods {
				if err := callOne(len(c.Ops), mm, 0, 3); err != nil {
					return fmt.Errorf("after the final Reset: %v", err)
				}
			}
			break
		}
	}
	if nontrivial {
		s.NonTrivial(strings.Join(fp, ","))
	}
	s.Sample(c)
	return nil
}

var opGen = vkit.OpGen([]string{"apply", "ret", "call", "callall", "reset", "gc"}, []int{4, 3, 8, 2, 1, 2}, 5)

func quiet() {
	if f, err := os.OpenFile(os.DevNull, os.O_WRONLY, 0); err == nil && os.Getenv("VERIF_VERBOSE") == "" {
		os.Stdout = f
	}
}

func TestVerifC06(t *testing.T) {
	quiet()
	p := &vkit.Prop{ID: "C06", Unit: "methods", Journal: true,
		New: func() interface{} { return &histCase{} },
		Gen: func(rt *rapid.T) interface{} {
			ops := rapid.SliceOfN(opGen, 2, 16).Draw(rt, "ops")
			ty := int64(rapid.SampledFrom([]int{0, 0, 1, 1, 8, 8, 2, 3, 4, 5, 6, 7, 9, 10, 11}).Draw(rt, "type"))
			for i := range ops {
				ops[i].I[4] = ty
			}
			return &histCase{Ops: ops}
		},
		Run: runHist}
	s := p.Main(t, vkit.Scale(1200, 12000))
	if !vkit.Replaying() {
		nm := 0
		for _, ty := range corpus.Types {
			nm += len(ty.Methods)
		}
		s.Note("%d generated struct types, %d methods, method-name prefix family Get/GetX/GetXY/GetXYZ/get/getX in every type", len(corpus.Types), nm)
		s.Done()
	}
}

// ---- generic types: instantiations of equal and different GC shape ----

type genCase struct {
	Inst   int    `json:"instantiation"`
	Method string `json:"method"` // Get | Count | Zero
	Code   uint64 `json:"value_code"`
}

func runGen(ci interface{}, s *vkit.Stats) error {
	c := ci.(*genCase)
	gi := corpus.GenInsts[c.Inst%len(corpus.GenInsts)]
	b := mocker.Create()
	defer b.Reset()
	var want reflect.Value
	var mi int
	var cbRec *corpus.Rec
	pv := guard(func() {
		switch c.Method {
		case "Get":
			want = vkit.Value(gi.ElemType, c.Code)
			b.Struct(gi.StructArg).Method("Get").Return(want.Interface())
			mi = 0
		case "GetCallback":
			// a callback on a parameterless generic method: the receiver must be the instance
			want = vkit.Value(gi.ElemType, c.Code)
			cbRec = &corpus.Rec{Res: []reflect.Value{want}}
			b.Struct(gi.StructArg).Method("Get").Apply(gi.GetCb(cbRec))
			mi = 0
		case "Count":
			want = vkit.Value(reflect.TypeOf(0), c.Code)
			b.Struct(gi.StructArg).Method("Count").Return(want.Interface())
			mi = 1
		case "P6", "P7", "P8", "P9", "P10", "P11", "P12", "P13", "P14":
			n, _ := strconv.Atoi(c.Method[1:])
			want = vkit.Value(reflect.TypeOf(0), c.Code)
			b.Struct(gi.StructArg).Method(c.Method).Return(want.Interface())
			mi = n
		case "Sum5":
			want = vkit.Value(reflect.TypeOf(0), c.Code)
			b.Struct(gi.StructArg).Method("Sum5").Return(want.Interface())
			mi = 4
		case "WideLen":
			want = vkit.Value(reflect.TypeOf(0), c.Code)
			b.Struct(gi.WideArg).Method("Len").Return(want.Interface())
			mi = 5
		default:
			want = vkit.Value(gi.ElemType, c.Code)
			b.Func(gi.ZeroFn).Return(want.Interface())
			mi = 3
		}
	})
	if pv != nil {
		return fmt.Errorf("stubbing %s.%s panicked: %v", gi.Name, c.Method, pv)
	}
	call := func(g *corpus.GenInst) reflect.Value {
		switch c.Method {
		case "Get", "GetCallback":
			return g.Get()
		case "Count":
			return reflect.ValueOf(g.Count())
		case "P6", "P7", "P8", "P9", "P10", "P11", "P12", "P13", "P14":
			n, _ := strconv.Atoi(c.Method[1:])
			return reflect.ValueOf(g.Arity(n))
		case "Sum5":
			return reflect.ValueOf(g.Sum5())
		case "WideLen":
			return reflect.ValueOf(g.WideLen())
		}
		return g.Zero()
	}
	// the mocked instantiation answers with the stub
	before := corpus.GenRan[gi.Idx][mi]
	got := call(gi)
	if corpus.GenRan[gi.Idx][mi] != before {
		return fmt.Errorf("%s.%s is stubbed but its body ran", gi.Name, c.Method)
	}
	if cbRec != nil {
		if cbRec.Calls != 1 || len(cbRec.Args) != 1 || cbRec.Args[0].Pointer() != reflect.ValueOf(gi.Recv).Pointer() {
			return fmt.Errorf("%s.Get mocked with a callback: it ran %d times and saw receiver %v, the instance is %#x", gi.Name, cbRec.Calls, descAll(cbRec.Args), reflect.ValueOf(gi.Recv).Pointer())
		}
	}
	if !vkit.Same(got, want) && !((c.Method == "Count" || c.Method == "Sum5" || c.Method == "WideLen" || c.Method[0] == 'P') && got.Int() == want.Int()) {
		return fmt.Errorf("%s.%s stubbed to return %s, caller got %s", gi.Name, c.Method, vkit.Describe(want), vkit.Describe(got))
	}
	// instantiations of a different shape are untouched; the other methods of the mocked instantiation too
	for _, o := range corpus.GenInsts {
		if o == gi {
			continue
		}
		before := corpus.GenRan[o.Idx][mi]
		_ = call(o)
		ran := corpus.GenRan[o.Idx][mi] - before
		if o.Shape != gi.Shape && ran != 1 {
			return fmt.Errorf("mocking %s.%s changed %s.%s (different GC shape %s vs %s): its body ran %d times", gi.Name, c.Method, o.Name, c.Method, gi.Shape, o.Shape, ran)
		}
		if o.Shape == gi.Shape {
			s.Class("same-shape-neighbour(not judged)")
		}
	}
	for other := 0; other < 2; other++ {
		if other == mi {
			continue
		}
		before := corpus.GenRan[gi.Idx][other]
		if other == 0 {
			gi.Get()
		} else {
			gi.Count()
		}
		if corpus.GenRan[gi.Idx][other]-before != 1 {
			return fmt.Errorf("mocking %s.%s changed another method of the same instantiation", gi.Name, c.Method)
		}
	}
	b.Reset()
	before = corpus.GenRan[gi.Idx][mi]
	_ = call(gi)
	if corpus.GenRan[gi.Idx][mi]-before != 1 {
		return fmt.Errorf("after Reset %s.%s does not run its body", gi.Name, c.Method)
	}
	s.Class("generic/" + c.Method + "/" + gi.Shape)
	s.NonTrivial(fmt.Sprintf("%d/%s/%d", c.Inst, c.Method, c.Code))
	s.Sample(c)
	return nil
}

func TestVerifC06Generics(t *testing.T) {
	quiet()
	p := &vkit.Prop{ID: "C06", Unit: "generics", Journal: true,
		New: func() interface{} { return &genCase{} },
		Gen: func(rt *rapid.T) interface{} {
			return &genCase{Inst: rapid.IntRange(0, len(corpus.GenInsts)-1).Draw(rt, "inst"),
				Method: rapid.SampledFrom([]string{"Get", "Count", "Zero", "GetCallback", "Sum5", "WideLen", "P6", "P7", "P8", "P9", "P10", "P11", "P12", "P13", "P14"}).Draw(rt, "method"),
				Code:   uint64(vkit.ValueCode().Draw(rt, "code"))}
		},
		Run: runGen}
	s := p.Main(t, vkit.Scale(300, 4000))
	if vkit.Replaying() {
		return
	}
	// probe of the known finding: callbacks on generic methods/functions receive the dictionary in place of the first argument
	gi := corpus.GenInsts[0]
	failed := ""
	func() {
		b := mocker.Create()
		defer b.Reset()
		rec := &corpus.Rec{Res: []reflect.Value{reflect.ValueOf(77)}}
		if pv := guard(func() {
			b.Struct(gi.StructArg).Method("Set").Apply(gi.SetCb(rec))
			passed := vkit.Value(gi.ElemType, 23) // 10
			_ = gi.Set(23)
			if rec.Calls != 1 || len(rec.Args) != 2 || !vkit.Same(rec.Args[1], passed) {
				seen := "nothing"
				if len(rec.Args) == 2 {
					seen = vkit.Describe(rec.Args[1])
				}
				failed = fmt.Sprintf("Apply on (*G[int]).Set: caller passed %s, the callback's parameter is %s (the dictionary argument of the shaped body shifts the parameters)", vkit.Describe(passed), seen)
			}
		}); pv != nil {
			failed = fmt.Sprintf("Apply on (*G[int]).Set panicked: %v", pv)
		}
	}()
	if failed != "" {
		s.KnownFinding("generic-callback-dictionary", failed)
	} else {
		s.ProbeOK("generic-callback-dictionary")
	}
	s.Done()
}

// ---- concurrent builders, different methods: each named method gets its own callback ----

type concCase struct {
	Type    int   `json:"type"`
	Methods []int `json:"methods"` // indices into the type's methods (taken modulo, duplicates dropped)
	How     int   `json:"how"`
	Rounds  int   `json:"rounds"`
}

func runConcMethods(ci interface{}, s *vkit.Stats) error {
	c := ci.(*concCase)
	ty := corpus.Types[c.Type%len(corpus.Types)]
	var ms []*corpus.Method
	seen := map[int]bool{}
	for _, i := range c.Methods {
		m := ty.Methods[i%len(ty.Methods)]
		if !seen[m.Tag] {
			seen[m.Tag] = true
			ms = append(ms, m)
		}
	}
	if len(ms) < 2 {
		return nil
	}
	for round := 0; round < c.Rounds; round++ {
		recs := make([]*corpus.Rec, len(ms))
		bs := make([]*mocker.Builder, len(ms))
		pvs := make([]interface{}, len(ms))
		var ready, done sync.WaitGroup
		start := make(chan struct{})
		for i := range ms {
			recs[i] = &corpus.Rec{Res: mresults(ms[i], int64(100*i+7))}
			bs[i] = mocker.Create()
			ready.Add(1)
			done.Add(1)
			go func(i int) {
				defer done.Done()
				ready.Done()
				<-start
				pvs[i] = guard(func() { apply(bs[i], ms[i], c.How+i, ms[i].MkRepl(recs[i]), nil) })
			}(i)
		}
		ready.Wait()
		close(start)
		done.Wait()
		var err error
		for i, m := range ms {
			if pvs[i] != nil {
				err = fmt.Errorf("round %d: mocking %s.%s while other methods of the type were being mocked by other builders panicked: %v", round, ty.Name, m.Name, pvs[i])
				break
			}
		}
		for i, m := range ms {
			if err != nil {
				break
			}
			before := make([]int, len(recs))
			for k := range recs {
				before[k] = recs[k].Calls
			}
			ran := atomic.LoadInt64(m.Ran)
			var got []reflect.Value
			if pv := guard(func() { got = m.Call(i%corpus.NumInstances, margs(m, int64(round*31+i))) }); pv != nil {
				err = fmt.Errorf("round %d: calling mocked %s.%s panicked: %v", round, ty.Name, m.Name, pv)
				break
			}
			for k := range recs {
				d := recs[k].Calls - before[k]
				if k == i && d != 1 {
					err = fmt.Errorf("round %d: %s.%s was mocked by its own builder but a call ran its callback %d times (original ran %d times)", round, ty.Name, m.Name, d, atomic.LoadInt64(m.Ran)-ran)
				} else if k != i && d != 0 {
					err = fmt.Errorf("round %d: a call of %s.%s ran the callback given for %s.%s", round, ty.Name, m.Name, ty.Name, ms[k].Name)
				}
			}
			for k := range got {
				if err == nil && !vkit.ContentEqual(got[k], recs[i].Res[k]) {
					err = fmt.Errorf("round %d: %s.%s returned %s, its callback returned %s", round, ty.Name, m.Name, vkit.Describe(got[k]), vkit.Describe(recs[i].Res[k]))
				}
			}
		}
		for _, b := range bs {
			b.Reset()
		}
		if err != nil {
			return err
		}
	}
	s.Class(fmt.Sprintf("concurrent/%d-methods", len(ms)))
	s.NonTrivial(fmt.Sprint(ty.Name, c.Methods, c.How))
	s.Sample(c)
	return nil
}

func TestVerifC06Concurrent(t *testing.T) {
	quiet()
	p := &vkit.Prop{ID: "C06", Unit: "concurrent-methods", Journal: true,
		New: func() interface{} { return &concCase{} },
		Gen: func(rt *rapid.T) interface{} {
			return &concCase{Type: rapid.IntRange(0, len(corpus.Types)-1).Draw(rt, "type"),
				Methods: rapid.SliceOfN(rapid.IntRange(0, 7), 2, 4).Draw(rt, "methods"),
				How:     rapid.IntRange(0, 5).Draw(rt, "how"), Rounds: vkit.Scale(4, 8)}
		},
		Run: runConcMethods}
	s := p.Main(t, vkit.Scale(400, 4000))
	if !vkit.Replaying() {
		s.Done()
	}
}
