//go:build go1.18
// +build go1.18

// Package c17: the bundled arm64 decoder is total and agrees with the reference (property C17).
package c17

import (
	"encoding/binary"
	"fmt"
	"runtime"
	"sync"
	"sync/atomic"
	"testing"

	"github.com/tencent/goom/internal/arch/arm64asm"
	"github.com/tencent/goom/zverif/vkit"
	refarm64 "github.com/tencent/goom/zverif/refarm64"
)

type wordCase struct {
	Word uint32 `json:"word"`
}

// sysClass: SYS/SYSL and their DC/IC/AT/TLBI aliases — the part goom's copy deliberately stubs.
func sysClass(w uint32) bool { return w&0xFFD80000 == 0xD5080000 }

func pcrels(args []interface{}) (out []int64, idx []int) {
	return
}

func checkWord(w uint32) (decodable bool, pcrel bool, err error) {
	var b [4]byte
	binary.LittleEndian.PutUint32(b[:], w)
	var in arm64asm.Inst
	var derr error
	func() {
		defer func() {
			if r := recover(); r != nil {
				err = fmt.Errorf("word %#08x: decoder panicked: %v", w, r)
			}
		}()
		in, derr = arm64asm.Decode(b[:])
		if derr == nil {
			_ = in.String()
		}
	}()
	if err != nil {
		return false, false, err
	}
	if sysClass(w) {
		return derr == nil, false, nil
	}
	ref, rerr := refarm64.Decode(b[:])
	if (derr == nil) != (rerr == nil) {
		return false, false, fmt.Errorf("word %#08x: goom says %v, reference says %v (%v)", w, errOrInst(derr, in.String), errOrInst(rerr, ref.String), ref.Op)
	}
	if derr != nil {
		return false, false, nil
	}
	if in.Op.String() != ref.Op.String() {
		return true, false, fmt.Errorf("word %#08x: opcode differs: goom %v, reference %v", w, in.Op, ref.Op)
	}
	for i := range ref.Args {
		rp, rok := ref.Args[i].(refarm64.PCRel)
		gp, gok := in.Args[i].(arm64asm.PCRel)
		if rok != gok {
			return true, rok, fmt.Errorf("word %#08x (%v): argument %d is PC-relative in one decoder only (goom %v, reference %v)", w, ref.Op, i, in.Args[i], ref.Args[i])
		}
		if rok {
			pcrel = true
			if int64(rp) != int64(gp) {
				return true, true, fmt.Errorf("word %#08x (%v): PC-relative displacement differs: goom %d, reference %d", w, ref.Op, int64(gp), int64(rp))
			}
		}
	}
	return true, pcrel, nil
}

func errOrInst(err error, str func() string) string {
	if err != nil {
		return "error(" + err.Error() + ")"
	}
	return str()
}

// branch-class encodings goom's arm64 extent / wrapper scans rely on: (mask,value) of the fixed bits
var branchClasses = []struct {
	name        string
	mask, value uint32
	stride      uint32 // stride over the free bits in the quick tier (1 = all)
}{
	{"B", 0xFC000000, 0x14000000, 1},
	{"BL", 0xFC000000, 0x94000000, 1},
	{"B.cond", 0xFF000010, 0x54000000, 1},
	{"CBZ/CBNZ", 0x7E000000, 0x34000000, 7},
	{"TBZ/TBNZ", 0x7E000000, 0x36000000, 7},
	{"ADR/ADRP", 0x1F000000, 0x10000000, 61},
	{"LDR-literal", 0x3B000000, 0x18000000, 61},
	{"BR/BLR/RET", 0xFE000000, 0xD6000000, 13},
}

func inBranchClass(w uint32) bool {
	for _, c := range branchClasses {
		if w&c.mask == c.value {
			return true
		}
	}
	return false
}

type tally struct {
	evals, decodable, pcrel, sys int64
}

// scan runs checkWord over [lo,hi) with the given stride, in parallel; skip filters words.
func scan(lo, hi uint64, stride uint64, skip func(uint32) bool, tl *tally, fail *atomic.Value) {
	workers := runtime.NumCPU()
	var wg sync.WaitGroup
	chunk := uint64(1 << 20)
	var next uint64 = lo
	var mu sync.Mutex
	for k := 0; k < workers; k++ {
		wg.Add(1)
		go func() {
			defer wg.Done()
			var l tally
			for {
				mu.Lock()
				a := next
				next += chunk * stride
				mu.Unlock()
				if a >= hi || fail.Load() != nil {
					break
				}
				b := a + chunk*stride
				if b > hi {
					b = hi
				}
				for w := a; w < b; w += stride {
					x := uint32(w)
					if skip != nil && skip(x) {
						continue
					}
					l.evals++
					if sysClass(x) {
						l.sys++
					}
					d, p, err := checkWord(x)
					if err != nil {
						fail.CompareAndSwap(nil, err.Error()+fmt.Sprintf("|%d", x))
						break
					}
					if d {
						l.decodable++
					}
					if p {
						l.pcrel++
					}
				}
			}
			atomic.AddInt64(&tl.evals, l.evals)
			atomic.AddInt64(&tl.decodable, l.decodable)
			atomic.AddInt64(&tl.pcrel, l.pcrel)
			atomic.AddInt64(&tl.sys, l.sys)
		}()
	}
	wg.Wait()
}

func TestVerifC17(t *testing.T) {
	p := &vkit.Prop{ID: "C17", Unit: "words", New: func() interface{} { return &wordCase{} },
		Run: func(ci interface{}, s *vkit.Stats) error {
			_, _, err := checkWord(ci.(*wordCase).Word)
			return err
		}}
	if vkit.Replaying() {
		p.Main(t, 0)
		return
	}
	s := vkit.NewStats("C17", "words")
	defer s.Flush()
	var fail atomic.Value
	var tl tally
	report := func() bool {
		if v := fail.Load(); v != nil {
			msg := v.(string)
			var w uint32
			for i := len(msg) - 1; i >= 0; i-- {
				if msg[i] == '|' {
					fmt.Sscan(msg[i+1:], &w)
					msg = msg[:i]
					break
				}
			}
			s.Violation(msg, &wordCase{Word: w})
			t.Errorf("%s", msg)
			return true
		}
		return false
	}
	if vkit.Thorough() {
		sh, nsh := vkit.Shard()
		span := (uint64(1) << 32) / uint64(nsh)
		lo := span * uint64(sh)
		hi := lo + span
		if sh == nsh-1 {
			hi = 1 << 32
		}
		scan(lo, hi, 1, nil, &tl, &fail)
		if report() {
			return
		}
		s.Exhaustive = true
		s.Note("exhaustive over words [%#x,%#x)", lo, hi)
		s.ClassN("words", int(tl.evals))
	} else {
		// strided sample outside the branch classes (offset by seed), then the branch classes
		off := vkit.Seed() % 4099
		scan(off, 1<<32, 4099, inBranchClass, &tl, &fail)
		if report() {
			return
		}
		s.ClassN("strided-sample", int(tl.evals))
		for _, c := range branchClasses {
			before := tl.evals
			// enumerate the free bits: iterate all words of the class via stride over the whole space is wasteful;
			// instead walk the free-bit patterns
			free := ^c.mask
			var n uint64
			var fail2 = &fail
			var words []uint32
			sub := uint32(0)
			cnt := uint32(0)
			for {
				if cnt%c.stride == uint32(off)%c.stride {
					words = append(words, c.value|sub)
				}
				cnt++
				n++
				sub = (sub - free) & free // next subset of the free mask
				if sub == 0 {
					break
				}
				if len(words) >= 1<<22 {
					scanList(words, &tl, fail2)
					words = words[:0]
				}
			}
			scanList(words, &tl, fail2)
			if report() {
				return
			}
			s.ClassN("class/"+c.name, int(tl.evals-before))
		}
	}
	if !vkit.Thorough() {
		// every format of the reference table: words with random free bits, register/immediate fields biased to 0 and all-ones
		before := tl.evals
		x := vkit.Seed()*0x9e3779b97f4a7c15 + 12345
		next := func() uint32 {
			x ^= x << 13
			x ^= x >> 7
			x ^= x << 17
			return uint32(x >> 16)
		}
		var words []uint32
		seen := map[uint32]bool{}
		for _, f := range refarm64.FormatMasks() {
			for k := 0; k < 4000; k++ {
				r := next()
				bias := next()
				for fi, field := range []uint32{0x1f, 0x1f << 5, 0x3f << 10, 0x3f << 16, 0x3 << 22} {
					switch (bias >> (2 * uint(fi))) & 3 {
					case 0:
						r &^= field
					case 1:
						r |= field
					}
				}
				w := f[1] | (r &^ f[0])
				if inBranchClass(w) || seen[w] {
					continue // branch classes are enumerated above; keep every counted word distinct
				}
				if (uint64(w)+4099-vkit.Seed()%4099)%4099 == 0 {
					continue // already in the strided sample
				}
				seen[w] = true
				words = append(words, w)
			}
		}
		scanList(words, &tl, &fail)
		if report() {
			return
		}
		s.ClassN("per-format-samples", int(tl.evals-before))
	}
	s.Eval(int(tl.evals))
	s.ClassN("decodable", int(tl.decodable))
	s.ClassN("with-pcrel-argument", int(tl.pcrel))
	s.ClassN("sys-class(total-only)", int(tl.sys))
	// every enumerated word is distinct by construction (disjoint ranges / classes excluded from the strided sample);
	// non-trivial = decodes to an instruction in both decoders
	s.NontrivialCount = tl.decodable
	for _, w := range []uint32{0x14000001, 0x94ffffff, 0x54000040, 0xd65f03c0, 0xf9400b81, 0x10ffffe0, 0xd5080000, 0xffffffff} {
		d, pc, _ := checkWord(w)
		s.Sample(map[string]interface{}{"word": fmt.Sprintf("%#08x", w), "decodable": d, "pcrel": pc})
	}
	s.Completed = true
}

func scanList(words []uint32, tl *tally, fail *atomic.Value) {
	workers := runtime.NumCPU()
	var wg sync.WaitGroup
	per := (len(words) + workers - 1) / workers
	for k := 0; k < workers; k++ {
		lo, hi := k*per, (k+1)*per
		if lo >= len(words) {
			break
		}
		if hi > len(words) {
			hi = len(words)
		}
		wg.Add(1)
		go func(ws []uint32) {
			defer wg.Done()
			var l tally
			for _, x := range ws {
				if fail.Load() != nil {
					break
				}
				l.evals++
				d, p, err := checkWord(x)
				if err != nil {
					fail.CompareAndSwap(nil, err.Error()+fmt.Sprintf("|%d", x))
					break
				}
				if d {
					l.decodable++
				}
				if p {
					l.pcrel++
				}
			}
			atomic.AddInt64(&tl.evals, l.evals)
			atomic.AddInt64(&tl.decodable, l.decodable)
			atomic.AddInt64(&tl.pcrel, l.pcrel)
		}(words[lo:hi])
	}
	wg.Wait()
}
