//go:build go1.18 && amd64
// +build go1.18,amd64

// Package c07: interface-variable mocks dispatch each method to its own replacement and restore (property C07).
package c07

import (
	"fmt"
	"os"
	"reflect"
	"strings"
	"testing"

	mocker "github.com/tencent/goom"
	"github.com/tencent/goom/zverif/corpus"
	"github.com/tencent/goom/zverif/vkit"
	"pgregory.net/rapid"
)

type histCase struct {
	Ops []vkit.Op `json:"ops"`
}

type slot struct {
	kind string // repl | ret
	rec  *corpus.Rec
	ret  []reflect.Value
}

type vstate struct {
	mocked  bool
	builder int // index of the builder that mocked it
	slots   map[int]*slot
	orphan  bool // the builder that mocked it was dropped (not reset)
	real    bool // holds the real implementation (when not mocked)
	saved   [2]uintptr
	copied  bool // holds a copy of the mocked value of another variable (slots = what was mocked when the copy was taken)
	src     *vstate // the variable the copy was taken from
	prev    *vstate // the copied state this variable's own mock was started over (restored by Reset)
	stale   bool    // the source of the copy was reset: the value stays in the variable, calls through it are no longer judged
	ever    bool    // the variable was mocked through goom at some point of the history
}

func guard(f func()) (pv interface{}) {
	defer func() { pv = recover() }()
	f()
	return nil
}

func cbType(m *corpus.IMethod) reflect.Type { return reflect.TypeOf(m.As) }

func margs(m *corpus.IMethod, code int64) []reflect.Value {
	t := cbType(m)
	a := make([]reflect.Value, t.NumIn()-1)
	for i := range a {
		a[i] = vkit.Value(t.In(i+1), uint64(code)+uint64(i)*5)
	}
	return a
}

func mresults(m *corpus.IMethod, code int64) []reflect.Value {
	t := cbType(m)
	r := make([]reflect.Value, t.NumOut())
	for i := range r {
		r[i] = vkit.Value(t.Out(i), uint64(code)+uint64(i)*3+1)
	}
	return r
}

func descAll(vs []reflect.Value) string {
	var p []string
	for _, v := range vs {
		p = append(p, vkit.Describe(v))
	}
	return "(" + strings.Join(p, ", ") + ")"
}

func runHist(ci interface{}, s *vkit.Stats) error {
	c := ci.(*histCase)
	if len(c.Ops) == 0 {
		return nil
	}
	for i := range c.Ops {
		for len(c.Ops[i].I) < 6 {
			c.Ops[i].I = append(c.Ops[i].I, 0)
		}
	}
	ii := corpus.Ifaces[vkit.Pick(c.Ops[0].I[5], len(corpus.Ifaces))]
	builders := []*mocker.Builder{mocker.Create(), mocker.Create()}
	live := []bool{true, true}
	vs := [3]*vstate{}
	for v := 0; v < 3; v++ {
		ii.SetNil(v)
		vs[v] = &vstate{slots: map[int]*slot{}}
		if vkit.Pick(c.Ops[0].I[4]>>uint(v), 2) == 1 {
			ii.SetImpl(v, 100+v)
			vs[v].real = true
		}
	}
	defer func() {
		for _, b := range builders {
			if b != nil {
				_ = guard(func() { b.Reset() })
			}
		}
		for v := 0; v < 3; v++ {
			ii.SetNil(v)
		}
	}()
	var fp []string
	nontrivial := false
	gcSince := false
	type keptKey struct{ b, v, tag int }
	keptI := map[keptKey]*mocker.CachedInterfaceMocker{}
	keptM := map[keptKey]mocker.InterfaceMocker{}
	callOne := func(step int, v int, m *corpus.IMethod, code int64) error {
		t := vs[v]
		where := fmt.Sprintf("step %d: %s variable %d method %s", step, ii.Name, v, m.Name)
		args := margs(m, code)
		if !t.mocked {
			if !t.real {
				return nil // a nil interface variable: calling it is the program's own nil dereference
			}
			before := corpus.IfaceRan[m.Tag]
			if pv := guard(func() { m.Call(v, args) }); pv != nil {
				return fmt.Errorf("%s: the variable is not mocked and holds the real implementation, call panicked: %v", where, pv)
			}
			if corpus.IfaceRan[m.Tag]-before != 1 {
				return fmt.Errorf("%s: the variable is not mocked but the real implementation did not run", where)
			}
			if id := ii.ImplID(v); id != 100+v {
				return fmt.Errorf("%s: the variable is not mocked and must hold the implementation object it held before (id %d); the object it holds now reads id %#x (gc-since=%v)", where, 100+v, id, gcSince)
			}
			return nil
		}
		if ii.IsNil(v) {
			return fmt.Errorf("%s: the variable was mocked but is nil", where)
		}
		if t.copied && t.stale {
			s.Exclude("copy-called-after-its-source-was-reset")
			return nil
		}
		if t.copied && t.src.slots[m.Tag] != t.slots[m.Tag] {
			// the method was mocked (again) on the source after the copy was taken: whether the copy sees the newer replacement
			// depends on whether goom extended the method table in place - the statement fixes neither, both are replacements
			s.Exclude("copy-called-after-its-source-was-re-mocked")
			return nil
		}
		sl := t.slots[m.Tag]
		if sl == nil {
			var got []reflect.Value
			pv := guard(func() { got = m.Call(v, args) })
			if pv == nil {
				return fmt.Errorf("%s: the method was not mocked; the call returned %s instead of panicking", where, descAll(got))
			}
			if !strings.Contains(fmt.Sprint(pv), "method not implements") {
				return fmt.Errorf("%s: the method was not mocked; the call panicked with %q, want the 'method not implements' message", where, fmt.Sprint(pv))
			}
			s.Class("call/unmocked-slot-panics")
			nontrivial = true
			return nil
		}
		calls := 0
		if sl.rec != nil {
			calls = sl.rec.Calls
			sl.rec.Res = mresults(m, code+17)
			sl.rec.Args = nil
		}
		realBefore := corpus.IfaceRan[m.Tag]
		var got []reflect.Value
		if pv := guard(func() { got = m.Call(v, args) }); pv != nil {
			return fmt.Errorf("%s (mocked by %s, gc-since-mock=%v) with %s: panicked: %v", where, sl.kind, gcSince, descAll(args), pv)
		}
		if corpus.IfaceRan[m.Tag] != realBefore {
			return fmt.Errorf("%s: mocked, but the real implementation ran", where)
		}
		want := sl.ret
		if sl.kind == "repl" {
			if d := sl.rec.Calls - calls; d != 1 {
				return fmt.Errorf("%s: this method's replacement ran %d times (another method's replacement answered?)", where, d)
			}
			if len(sl.rec.Args) != len(args) {
				return fmt.Errorf("%s: replacement recorded %d arguments, want %d", where, len(sl.rec.Args), len(args))
			}
			for i := range args {
				if !vkit.Same(args[i], sl.rec.Args[i]) {
					return fmt.Errorf("%s: caller passed %s, replacement saw %s", where, descAll(args), descAll(sl.rec.Args))
				}
			}
			want = sl.rec.Res
		}
		for i := range got {
			if !vkit.Same(got[i], want[i]) {
				return fmt.Errorf("%s (%s): configured results %s, caller got %s", where, sl.kind, descAll(want), descAll(got))
			}
		}
		s.Class("call/mocked-slot")
		if gcSince {
			s.Class("call/mocked-slot-after-gc")
		}
		if t.orphan {
			s.Class("call/mocked-slot-after-builder-dropped")
		}
		return nil
	}
	for step, op := range c.Ops {
		v := vkit.Pick(op.I[0], 3)
		m := ii.Methods[vkit.Pick(op.I[1], len(ii.Methods))]
		bi := vkit.Pick(op.I[2], 2)
		t := vs[v]
		switch op.K {
		case "apply", "ret":
			if t.copied {
				// the variable holds a value copied from another mocked variable: mocking it starts a mock of its own (a fresh
				// method table: only what is mocked now answers), the other variable is not affected, Reset puts the copy back
				ns := &vstate{slots: map[int]*slot{}, prev: t, ever: true}
				vs[v] = ns
				t = ns
				s.Class("mock-started-on-a-variable-that-holds-a-copied-mock")
			}
			if t.mocked && t.builder != bi {
				bi = t.builder // one variable is mocked through one builder at a time
			}
			if t.mocked && t.orphan {
				// its builder was dropped: the statement promises that the existing mock keeps working, not that
				// another builder can extend it
				s.Exclude("mock-on-variable-whose-builder-was-dropped")
				continue
			}
			if builders[bi] == nil {
				builders[bi] = mocker.Create()
				live[bi] = true
			}
			b := builders[bi]
			if !t.mocked {
				t.saved = ii.Words(v)
			}
			if old := t.slots[m.Tag]; old != nil && old.kind == "ret" && op.K == "ret" {
				continue // a second Return extends the sequence (C05)
			}
			var pv interface{}
			var sl *slot
			// the mocker objects returned by earlier lookups may be kept and used again (also after a Reset of the builder)
			useKept := vkit.Pick(op.I[4], 3) == 0
			method := func() mocker.InterfaceMocker {
				mk := keptKey{bi, v, m.Tag}
				ik := keptKey{bi, v, -1}
				if km, ok := keptM[mk]; ok && useKept {
					s.Class("instruction-through-a-kept-method-handle")
					return km
				}
				var im *mocker.CachedInterfaceMocker
				if ki, ok := keptI[ik]; ok && useKept {
					s.Class("instruction-through-a-kept-interface-handle")
					im = ki
				} else {
					im = b.Interface(ii.Var(v))
					if old, ok := keptI[ik]; ok && old != im {
						// a fresh lookup after a Reset starts a new mocker for the variable: handles from before the Reset are
						// superseded (using both would be two owners of one variable, which no property describes)
						for k := range keptM {
							if k.b == bi && k.v == v {
								delete(keptM, k)
							}
						}
					}
					keptI[ik] = im
				}
				mm := im.Method(m.Name)
				keptM[mk] = mm
				return mm
			}
			if op.K == "apply" {
				rec := &corpus.Rec{}
				sl = &slot{kind: "repl", rec: rec}
				pv = guard(func() { method().Apply(m.MkCb(rec)) })
			} else {
				res := mresults(m, op.I[3])
				vals := make([]interface{}, len(res))
				for i := range res {
					vals[i] = res[i].Interface()
				}
				sl = &slot{kind: "ret", ret: res}
				pv = guard(func() { method().As(m.As).Return(vals...) })
			}
			if pv != nil {
				return fmt.Errorf("step %d: mocking %s.%s on variable %d (%s) panicked: %v", step, ii.Name, m.Name, v, op.K, pv)
			}
			t.mocked, t.builder, t.ever = true, bi, true
			t.slots[m.Tag] = sl
			fp = append(fp, fmt.Sprintf("%s%d:%d", op.K[:1], v, m.Tag%100))
			if ii.IsNil(v) {
				return fmt.Errorf("step %d: after mocking %s.%s variable %d is still nil", step, ii.Name, m.Name, v)
			}
			if len(t.slots) >= 2 {
				s.Class("variable-with->=2-mocked-slots")
			}
		case "badstub":
			// a stub goom refuses (the As signature has one parameter too many): the refusal leaves the method as it was, and a
			// correct stub of the same method through the same builder afterwards works
			if t.copied || (t.mocked && t.orphan) {
				continue
			}
			if t.mocked && t.builder != bi {
				bi = t.builder
			}
			if builders[bi] == nil {
				builders[bi] = mocker.Create()
				live[bi] = true
			}
			asT := reflect.TypeOf(m.As)
			ins := []reflect.Type{asT.In(0), reflect.TypeOf(0)}
			for i := 1; i < asT.NumIn(); i++ {
				ins = append(ins, asT.In(i))
			}
			var outs []reflect.Type
			for i := 0; i < asT.NumOut(); i++ {
				outs = append(outs, asT.Out(i))
			}
			bad := reflect.MakeFunc(reflect.FuncOf(ins, outs, false), func([]reflect.Value) []reflect.Value {
				r := make([]reflect.Value, len(outs))
				for i := range r {
					r[i] = reflect.Zero(outs[i])
				}
				return r
			}).Interface()
			res := mresults(m, op.I[3])
			vals := make([]interface{}, len(res))
			for i := range res {
				vals[i] = res[i].Interface()
			}
			wasNil := ii.IsNil(v)
			if pv := guard(func() {
				// a fresh lookup, with the same bookkeeping as for well-formed instructions: it supersedes handles kept from before a Reset
				im := builders[bi].Interface(ii.Var(v))
				ik := keptKey{bi, v, -1}
				if old, ok := keptI[ik]; ok && old != im {
					for k := range keptM {
						if k.b == bi && k.v == v {
							delete(keptM, k)
						}
					}
				}
				keptI[ik] = im
				im.Method(m.Name).As(bad).Return(vals...)
			}); pv == nil {
				s.Exclude("stub-with-an-extra-parameter-was-accepted(property C13 judges that)")
				return nil
			}
			if !t.mocked && wasNil != ii.IsNil(v) {
				return fmt.Errorf("step %d: a refused stub of %s.%s changed variable %d", step, ii.Name, m.Name, v)
			}
			s.Class("refused-stub-in-the-history")
			fp = append(fp, fmt.Sprintf("bad%d:%d", v, m.Tag%100))
		case "copy":
			// the mocked value is handed to another variable of the interface type (an object keeping the dependency it was
			// built with): it stays callable for as long as that variable holds it, whatever happens to the first variable
			dst := (v + 1 + vkit.Pick(op.I[3], 2)) % 3
			d := vs[dst]
			if !t.mocked || t.copied || d.mocked || d.ever {
				continue // (a variable goom has mocked before is not assigned by the program between two of its mocks)
			}
			reflect.ValueOf(ii.Var(dst)).Elem().Set(reflect.ValueOf(ii.Var(v)).Elem())
			snap := map[int]*slot{}
			for k, sl := range t.slots {
				snap[k] = sl
			}
			vs[dst] = &vstate{slots: snap, mocked: true, copied: true, builder: -1, src: t}
			s.Class("mocked-value-copied-to-another-variable")
			fp = append(fp, fmt.Sprintf("cp%d>%d", v, dst))
			nontrivial = true
		case "call":
			if err := callOne(step, v, m, op.I[3]); err != nil {
				return err
			}
		case "callall":
			for vv := 0; vv < 3; vv++ {
				for _, mm := range ii.Methods {
					if err := callOne(step, vv, mm, op.I[3]+int64(vv)); err != nil {
						return err
					}
				}
			}
			fp = append(fp, "all")
		case "reset":
			if builders[bi] == nil || !live[bi] {
				continue
			}
			if vkit.Pick(op.I[3], 2) == 0 {
				// a collection (and heap reuse) right before the Reset: whatever the mock keeps for the restore must have survived it
				vkit.GC()
				vkit.ChurnSmall(60000)
				gcSince = true
			}
			if pv := guard(func() { builders[bi].Reset() }); pv != nil {
				return fmt.Errorf("step %d: Reset panicked: %v", step, pv)
			}
			for vv, tt := range vs {
				if tt.mocked && tt.builder == bi && !tt.orphan {
					// copies of this activation's value held by other variables: the statement promises nothing about them once
					// the mock was reset; they are put back to nil and no longer judged
					for _, ct := range vs {
						if ct.copied && ct.mocked && ct.src == tt {
							ct.stale = true // (the variable keeps the value: assigning it here would be a program assignment between two mocks)
							s.Class("copy-retired-when-its-source-was-reset")
						} else if ct.prev != nil && ct.prev.src == tt {
							ct.prev.stale = true
						}
					}
					tt.mocked = false
					tt.slots = map[int]*slot{}
					if w := ii.Words(vv); w != tt.saved {
						return fmt.Errorf("step %d: after Reset variable %d of %s holds words %#x, it held %#x before it was mocked", step, vv, ii.Name, w, tt.saved)
					}
					if tt.prev != nil {
						// the variable holds the copied value again
						vs[vv] = tt.prev
						s.Class("reset-puts-the-copied-mock-back")
						continue
					}
					if tt.real {
						if id := ii.ImplID(vv); id != 100+vv {
							return fmt.Errorf("step %d: after Reset variable %d of %s points at an object reading id %#x, the implementation it held before has id %d (gc while mocked: %v)", step, vv, ii.Name, id, 100+vv, gcSince)
						}
						if gcSince {
							s.Class("reset-restores-real-implementation-after-gc")
						}
					}
					s.Class("reset-restores-variable")
					nontrivial = true
				}
			}
			fp = append(fp, "reset")
		case "dropgc":
			// the builder is dropped (not reset); the variables keep their mocks
			if builders[bi] != nil {
				builders[bi] = nil
				live[bi] = false
				for k := range keptI {
					if k.b == bi {
						delete(keptI, k)
					}
				}
				for k := range keptM {
					if k.b == bi {
						delete(keptM, k)
					}
				}
				for _, tt := range vs {
					if tt.mocked && tt.builder == bi {
						tt.orphan = true
					}
				}
			}
			vkit.GC()
			vkit.ChurnSmall(60000)
			vkit.Churn(1000)
			vkit.GC()
			gcSince = true
			fp = append(fp, "dropgc")
			nontrivial = true
		case "gc":
			vkit.GC()
			vkit.ChurnSmall(60000)
			gcSince = true
			fp = append(fp, "gc")
		}
	}
	// final sweep: everything still answers according to the model
	for vv := 0; vv < 3; vv++ {
		for _, mm := range ii.Methods {
			if err := callOne(len(c.Ops), vv, mm, 9); err != nil {
				return fmt.Errorf("final sweep: %v", err)
			}
		}
	}
	if nontrivial {
		s.NonTrivial(ii.Name + ":" + strings.Join(fp, ","))
	}
	s.Sample(c)
	return nil
}

var opGen = vkit.OpGen([]string{"apply", "ret", "call", "callall", "reset", "dropgc", "gc", "copy", "badstub"}, []int{5, 4, 8, 2, 2, 1, 1, 2, 2}, 6)

func TestVerifC07(t *testing.T) {
	if f, err := os.OpenFile(os.DevNull, os.O_WRONLY, 0); err == nil && os.Getenv("VERIF_VERBOSE") == "" {
		os.Stdout = f
	}
	p := &vkit.Prop{ID: "C07", Unit: "histories", Journal: true,
		New: func() interface{} { return &histCase{} },
		Gen: func(rt *rapid.T) interface{} {
			ops := rapid.SliceOfN(opGen, 2, 18).Draw(rt, "ops")
			ii := int64(rapid.IntRange(0, len(corpus.Ifaces)-1).Draw(rt, "iface"))
			for i := range ops {
				ops[i].I[5] = ii
			}
			return &histCase{Ops: ops}
		},
		Run: runHist}
	s := p.Main(t, vkit.Scale(1200, 10000))
	if !vkit.Replaying() {
		s.Done()
	}
}
