//go:build go1.18
// +build go1.18

// Package c15 checks the arm64 and 386 jump emitters (property C15). They only
// build for their own GOARCH, so the driver copies monkey_arm64.go,
// jmp_arm64.go and monkey_386.go from the working tree into scratch packages.
package c15

import (
	"encoding/binary"
	"fmt"
	"testing"

	"github.com/tencent/goom/zverif/c15kit"
	"github.com/tencent/goom/zverif/emit386patch"
	"github.com/tencent/goom/zverif/emitarm64iface"
	"github.com/tencent/goom/zverif/emitarm64patch"
	refarm64 "github.com/tencent/goom/zverif/refarm64"
	"github.com/tencent/goom/zverif/x86eval"
	refx86 "github.com/tencent/goom/zverif/refx86"
)

// evalArm64 interprets MOVZ/MOVK.. ; LDR Xt,[Xn] ; BR Xt. Register identity and
// opcode come from the reference decoder, immediates from the architectural
// field layout (sf|opc|100101|hw|imm16|rd), which is independent of goom's encoder.
func evalArm64(code []byte, to uint64, scratch, loaded refarm64.Reg) error {
	if len(code) != 24 {
		return fmt.Errorf("sequence has %d bytes, want 6 instructions", len(code))
	}
	var x [32]uint64
	for i := 0; i < 4; i++ {
		w := binary.LittleEndian.Uint32(code[4*i:])
		in, err := refarm64.Decode(code[4*i : 4*i+4])
		if err != nil {
			return fmt.Errorf("word %d (%#08x) undecodable: %v", i, w, err)
		}
		rd := w & 31
		hw := (w >> 21) & 3
		imm := uint64((w >> 5) & 0xffff)
		switch in.Op {
		case refarm64.MOVZ, refarm64.MOV:
			if (w>>23)&0x3f != 0x25 || (w>>29)&3 != 2 || w>>31 != 1 {
				return fmt.Errorf("word %d (%#08x, %v) is not a 64-bit MOVZ", i, w, in)
			}
			if i != 0 {
				return fmt.Errorf("word %d is %v: a MOVZ after the first move clears the lanes already set", i, in)
			}
			x[rd] = imm << (16 * hw)
		case refarm64.MOVK:
			if (w>>23)&0x3f != 0x25 || (w>>29)&3 != 3 || w>>31 != 1 {
				return fmt.Errorf("word %d (%#08x, %v) is not a 64-bit MOVK", i, w, in)
			}
			x[rd] = (x[rd] &^ (0xffff << (16 * hw))) | imm<<(16*hw)
		default:
			return fmt.Errorf("word %d is %v, want MOVZ/MOVK", i, in)
		}
		if r, ok := in.Args[0].(refarm64.Reg); !ok || r != scratch {
			return fmt.Errorf("word %d writes %v, want %v", i, in.Args[0], scratch)
		}
	}
	if got := x[scratch-refarm64.X0]; got != to {
		return fmt.Errorf("%v holds %#x after the four moves, want %#x", scratch, got, to)
	}
	ld, err := refarm64.Decode(code[16:20])
	if err != nil || ld.Op != refarm64.LDR {
		return fmt.Errorf("fifth instruction is %v (%v), want LDR", ld, err)
	}
	if r, ok := ld.Args[0].(refarm64.Reg); !ok || r != loaded {
		return fmt.Errorf("LDR loads into %v, want %v", ld.Args[0], loaded)
	}
	m, ok := ld.Args[1].(refarm64.MemImmediate)
	if !ok || refarm64.Reg(m.Base) != scratch || refarm64.MemImmOffset(m) != 0 || m.Mode != refarm64.AddrOffset {
		return fmt.Errorf("LDR reads %v, want [%v]", ld.Args[1], scratch)
	}
	br, err := refarm64.Decode(code[20:24])
	if err != nil || br.Op != refarm64.BR {
		return fmt.Errorf("sixth instruction is %v (%v), want BR", br, err)
	}
	if r, ok := br.Args[0].(refarm64.Reg); !ok || r != loaded {
		return fmt.Errorf("BR goes through %v, want %v", br.Args[0], loaded)
	}
	return nil
}

func TestVerifC15(t *testing.T) {
	ems := []c15kit.Emitter{
		{Name: "arm64/jmpToFunctionValue",
			Emit:  func(from, to uint64) []byte { return emitarm64patch.JmpToFunctionValue(uintptr(from), uintptr(to)) },
			Judge: func(code []byte, from, to uint64) error { return evalArm64(code, to, refarm64.X26, refarm64.X10) }},
		{Name: "arm64/jmpWithRdx",
			Emit:  func(from, to uint64) []byte { return emitarm64iface.JmpWithRdx(uintptr(to)) },
			Judge: func(code []byte, from, to uint64) error { return evalArm64(code, to, refarm64.X26, refarm64.X27) }},
		{Name: "arm64/jmpWithRdxAndCtx",
			Emit:  func(from, to uint64) []byte { return emitarm64iface.JmpWithRdxAndCtx(uintptr(to), uintptr(from), 0) },
			Judge: func(code []byte, from, to uint64) error { return evalArm64(code, to, refarm64.X26, refarm64.X27) }},
		{Name: "386/jmpToFunctionValue",
			Emit: func(from, to uint64) []byte { return emit386patch.JmpToFunctionValue(uintptr(from), uintptr(to)) },
			Judge: func(code []byte, from, to uint64) error {
				r, err := x86eval.EvalJump(code, 32, from)
				if err != nil {
					return err
				}
				if r.Kind != "abs" || r.Reg != refx86.EDX {
					return fmt.Errorf("386 entry jump is %s through %v, want absolute through EDX", r.Kind, r.Reg)
				}
				if r.RegValue != to&0xffffffff {
					return fmt.Errorf("EDX holds %#x, want %#x", r.RegValue, to&0xffffffff)
				}
				return nil
			}},
	}
	c15kit.Run(t, "arm64-386", ems)
}
