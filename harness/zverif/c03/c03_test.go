//go:build go1.18 && amd64 && linux
// +build go1.18,amd64,linux

// Package c03: calling the origin placeholder runs the unmodified original function (property C03, dynamic half).
package c03

import (
	"bytes"
	"fmt"
	"os"
	"reflect"
	"testing"

	mocker "github.com/tencent/goom"
	"github.com/tencent/goom/zverif/corpus"
	"github.com/tencent/goom/zverif/reloc"
	"github.com/tencent/goom/zverif/vkit"
	refx86 "github.com/tencent/goom/zverif/refx86"
	"pgregory.net/rapid"
)

type dynCase struct {
	Target int   `json:"target"` // index into zoo ++ corpus functions
	Name   string `json:"name"`
	Code   int64 `json:"arg_code"`
	Depths []int `json:"depths"` // stack depth (frames) of each call of the mocked function
	// Share > 0: the placeholder of another function of the same signature is used; Pre: functions of that signature (offsets in the group)
	// that are mocked through the same placeholder, called once and reset before the target is
	// Premock > 0: the function is already mocked through the same builder when the origin placeholder is asked for (1: plain
	// callback, 2: callback with this placeholder, 3: Return stub) - no Reset in between
	Premock int `json:"premock,omitempty"`
	Share   int `json:"share,omitempty"`
	Pre   []int `json:"pre,omitempty"`
}

var groups = map[reflect.Type][]int{}

var img *vkit.TextImage
var all []*corpus.Fn

type meta struct {
	entry      uintptr
	end        uintptr
	ph         [2]uintptr // placeholder body
	stackCheck bool
}

var metas []meta

func guard(f func()) (pv interface{}) {
	defer func() { pv = recover() }()
	f()
	return nil
}

// hasStackCheck: the prologue compares the stack pointer (or an LEA of it) with the goroutine's stack guard
func hasStackCheck(code []byte) bool {
	for p, n := 0, 0; p < len(code) && n < 6; n++ {
		in, err := refx86.Decode(code[p:], 64)
		if err != nil {
			return false
		}
		if in.Op == refx86.CMP {
			for _, a := range in.Args {
				if m, ok := a.(refx86.Mem); ok && m.Base == refx86.R14 && m.Disp == 0x10 {
					return true
				}
			}
		}
		p += in.Len
	}
	return false
}

func argsFor(fn *corpus.Fn, code int64) []reflect.Value {
	a := make([]reflect.Value, fn.Type.NumIn())
	for i := range a {
		a[i] = vkit.Value(fn.Type.In(i), uint64(code)+uint64(i)*3)
		if a[i].Kind() == reflect.Int && (a[i].Int() > 1<<20 || a[i].Int() < -(1<<20)) {
			a[i] = reflect.ValueOf(int(a[i].Int() % 1000)).Convert(fn.Type.In(i)) // zoo loops iterate over their int arguments
		}
	}
	return a
}

func snapshotGlobals() [3]interface{} { return [3]interface{}{corpus.ZG, corpus.ZS, corpus.ZU} }
func restoreGlobals(g [3]interface{}) {
	corpus.ZG, corpus.ZS, corpus.ZU = g[0].(int), g[1].(string), g[2].(uint64)
}

func runDyn(ci interface{}, s *vkit.Stats) error {
	c := ci.(*dynCase)
	k := c.Target % len(all)
	grp := groups[all[k].Type]
	pos := 0
	for i, x := range grp {
		if x == k {
			pos = i
		}
	}
	owner := k
	if c.Share > 0 && len(grp) > 1 {
		owner = grp[(pos+c.Share)%len(grp)]
	}
	if len(grp) > 1 {
		for _, p := range c.Pre {
			if err := runStep(c, grp[(pos+p)%len(grp)], owner, []int{-1}, s, true); err != nil {
				return fmt.Errorf("(prelude) %v", err)
			}
		}
		if len(c.Pre) > 0 {
			s.Class("placeholder-used-by-other-functions-before")
		}
	}
	if owner != k {
		s.Class("placeholder-of-another-function")
	}
	return runStep(c, k, owner, c.Depths, s, false)
}

// runStep mocks function k with the origin placeholder of function owner (same signature), calls it and resets.
func runStep(c *dynCase, k, owner int, depths []int, s *vkit.Stats, prelude bool) error {
	fn := all[k]
	m := metas[k]
	m.ph = metas[owner].ph
	ofn := all[owner]
	args := argsFor(fn, c.Code)
	g0 := snapshotGlobals()
	defer restoreGlobals(g0)
	// the un-mocked function, from the same initial globals
	var want []reflect.Value
	if pv := guard(func() { want = fn.Call(corpus.FormDirect, args) }); pv != nil {
		return nil // the original itself panics on these arguments: nothing to compare
	}
	gWant := snapshotGlobals()
	restoreGlobals(g0)

	fnBefore := append([]byte(nil), vkit.Bytes(m.entry, int(m.end-m.entry))...)
	phBefore := append([]byte(nil), vkit.Bytes(m.ph[0], int(m.ph[1]-m.ph[0]))...)
	b := mocker.Create()
	defer b.Reset()
	rec := &corpus.Rec{}
	rec.Hook = func(a []reflect.Value) { rec.Res = ofn.CallOrigin(a) }
	premocked := false
	if !prelude && c.Premock > 0 {
		rec0 := &corpus.Rec{Res: make([]reflect.Value, fn.Type.NumOut())}
		for i := range rec0.Res {
			rec0.Res[i] = reflect.Zero(fn.Type.Out(i))
		}
		ppv := guard(func() {
			switch c.Premock {
			case 1:
				b.Func(fn.Fn).Apply(fn.MkRepl(rec0))
			case 2:
				b.Func(fn.Fn).Origin(ofn.Origin).Apply(fn.MkRepl(rec0))
			default:
				vals := make([]interface{}, len(rec0.Res))
				for i := range vals {
					vals[i] = rec0.Res[i].Interface()
				}
				b.Func(fn.Fn).Return(vals...)
			}
		})
		premocked = ppv == nil
		if ppv == nil {
			s.Class("origin-asked-for-while-the-function-is-already-mocked")
			// the function is mocked now: its bytes differ from pristine until the refusal / reset checks below restore them
			fnBefore = append([]byte(nil), vkit.Bytes(m.entry, int(m.end-m.entry))...)
			phBefore = append([]byte(nil), vkit.Bytes(m.ph[0], int(m.ph[1]-m.ph[0]))...)
		}
	}
	pv := guard(func() { b.Func(fn.Fn).Origin(ofn.Origin).Apply(fn.MkRepl(rec)) })
	where := fmt.Sprintf("%s %s (stack check: %v)", fn.Name, fn.Type, m.stackCheck)
	if owner != k {
		where += " with the origin placeholder " + "O" + ofn.Name
	}
	if pv != nil && premocked {
		// a refusal over a live mock: what state the earlier mock is left in is property C02's business (refused-applies unit)
		s.Class("refused-over-the-earlier-mock(not judged here)")
		return nil
	}
	if pv != nil {
		// refused: function and placeholder unchanged, function not mocked
		if !bytes.Equal(fnBefore, vkit.Bytes(m.entry, len(fnBefore))) {
			return fmt.Errorf("%s: apply with an origin placeholder failed (%v) but the function's bytes changed", where, pv)
		}
		if !bytes.Equal(phBefore, vkit.Bytes(m.ph[0], len(phBefore))) {
			return fmt.Errorf("%s: apply with an origin placeholder failed (%v) but the placeholder's bytes changed", where, pv)
		}
		var got []reflect.Value
		if pv2 := guard(func() { got = fn.Call(corpus.FormDirect, args) }); pv2 != nil || rec.Calls != 0 {
			return fmt.Errorf("%s: apply failed (%v) but the function is mocked or broken afterwards (%v)", where, pv, pv2)
		}
		_ = got
		s.Class("refused")
		s.NonTrivial(fmt.Sprintf("refused/%d", k))
		return nil
	}
	// accepted: validate the placeholder bytes statically first - never execute an unfaithful trampoline
	pristineOff := int(m.entry - img.Addr)
	orig := img.Pristine[pristineOff : pristineOff+int(m.end-m.entry)]
	tramp := vkit.Bytes(m.ph[0], int(m.ph[1]-m.ph[0]))
	info, used, verr := reloc.ValidateTrampoline(orig, uint64(m.entry), tramp, uint64(m.ph[0]), 13)
	if verr != nil {
		return fmt.Errorf("%s: the trampoline written into the placeholder is not a faithful relocation (not executed): %v", where, verr)
	}
	if used > len(tramp) {
		return fmt.Errorf("%s: trampoline (%d bytes) exceeds the placeholder body (%d bytes)", where, used, len(tramp))
	}
	if found, _, desc := reloc.BranchInto(orig, 13); found {
		return fmt.Errorf("%s: accepted although %s, i.e. into the overwritten entry bytes", where, desc)
	}
	s.Class("accepted")
	s.Class("shape/" + info.Shape)
	// execute: call the mocked function from goroutines of generated stack depth; the callback forwards to the placeholder
	for _, d := range depths {
		if m.stackCheck {
			d = -1 // known finding origin-morestack-reentry: stack-check targets only with headroom
		}
		restoreGlobals(g0)
		calls := rec.Calls
		var got []reflect.Value
		var pv interface{}
		run := func() { pv = guard(func() { got = fn.Call(corpus.FormDirect, args) }) }
		switch {
		case d < 0:
			vkit.WithHeadroom(run)
		default:
			vkit.AtDepth(d, run)
		}
		if pv != nil {
			return fmt.Errorf("%s: calling through the origin placeholder at depth %d panicked: %v", where, d, pv)
		}
		if n := rec.Calls - calls; n != 1 {
			return fmt.Errorf("%s: one call at depth %d ran the callback %d times (the placeholder re-entered the mock?)", where, d, n)
		}
		for i := range want {
			if !vkit.ContentEqual(want[i], got[i]) {
				return fmt.Errorf("%s: at depth %d the placeholder yields %s, the un-mocked function %s", where, d, vkit.Describe(got[i]), vkit.Describe(want[i]))
			}
		}
		if gGot := snapshotGlobals(); gGot != gWant {
			return fmt.Errorf("%s: side effects differ: globals %v after the placeholder, %v after the un-mocked function", where, gGot, gWant)
		}
		s.Class("origin-call")
		if d >= 0 {
			s.Class("origin-call/at-generated-depth")
		}
	}
	if !prelude {
		s.NonTrivial(fmt.Sprintf("%d/%d/%d/%v/%v", k, owner, c.Code, c.Depths, c.Pre))
		s.Sample(c)
	}
	return nil
}

func setup(t *testing.T) {
	if f, err := os.OpenFile(os.DevNull, os.O_WRONLY, 0); err == nil && os.Getenv("VERIF_VERBOSE") == "" {
		os.Stdout = f
	}
	img = vkit.SnapshotText()
	all = append(append([]*corpus.Fn{}, corpus.Zoo...), corpus.Fns...)
	for _, fn := range all {
		e := reflect.ValueOf(fn.Fn).Pointer()
		f, ok := img.FuncAt(e)
		if !ok {
			t.Fatalf("%s not in image", fn.Name)
		}
		pf, ok := img.FuncAt(reflect.ValueOf(fn.Origin).Elem().Pointer())
		if !ok {
			t.Fatalf("placeholder of %s not in image", fn.Name)
		}
		groups[fn.Type] = append(groups[fn.Type], len(metas))
		metas = append(metas, meta{entry: e, end: uintptr(f.End), ph: [2]uintptr{uintptr(pf.Entry), uintptr(pf.End)},
			stackCheck: hasStackCheck(vkit.Bytes(e, int(uintptr(f.End)-e)))})
	}
}

func TestVerifC03Dynamic(t *testing.T) {
	setup(t)
	p := &vkit.Prop{ID: "C03", Unit: "dynamic", Journal: true, New: func() interface{} { return &dynCase{} },
		Gen: func(rt *rapid.T) interface{} {
			c := &dynCase{Code: int64(vkit.ValueCode().Draw(rt, "code"))}
			if rapid.Bool().Draw(rt, "zoo") {
				c.Target = rapid.IntRange(0, len(corpus.Zoo)-1).Draw(rt, "zoo-target")
			} else {
				c.Target = rapid.IntRange(0, len(all)-1).Draw(rt, "target")
			}
			c.Name = all[c.Target].Name
			c.Depths = rapid.SliceOfN(rapid.OneOf(rapid.IntRange(0, 40), rapid.IntRange(0, 700)), 1, 6).Draw(rt, "depths")
			if rapid.IntRange(0, 3).Draw(rt, "premock?") == 0 {
				c.Premock = rapid.IntRange(1, 3).Draw(rt, "premock")
			}
			if len(groups[all[c.Target].Type]) > 1 {
				if rapid.Bool().Draw(rt, "shared") {
					c.Share = rapid.IntRange(1, 5).Draw(rt, "share")
				}
				c.Pre = rapid.SliceOfN(rapid.IntRange(0, 5), 0, 3).Draw(rt, "pre")
			}
			return c
		},
		Run: runDyn}
	s := p.Main(t, vkit.Scale(600, 8000))
	if vkit.Replaying() {
		return
	}
	nsc := 0
	for _, m := range metas {
		if m.stackCheck {
			nsc++
		}
	}
	s.Note("%d zoo functions + %d corpus functions, %d with a stack-check prologue (called through the placeholder only with headroom)", len(corpus.Zoo), len(corpus.Fns), nsc)
	// probe of the known finding: a stack-check target whose placeholder is called with little headroom re-enters the mock
	func() {
		k := -1
		for i, m := range metas {
			if m.stackCheck && all[i].Type.NumIn() == 1 && all[i].Type.In(0).Kind() == reflect.Int && all[i].Type.NumOut() >= 1 {
				k = i
				break
			}
		}
		if k < 0 {
			s.Note("no stack-check target with signature func(int) ...: probe skipped")
			return
		}
		fn := all[k]
		b := mocker.Create()
		defer b.Reset()
		rec := &corpus.Rec{}
		rec.Hook = func(a []reflect.Value) { rec.Res = fn.CallOrigin(a) }
		if pv := guard(func() { b.Func(fn.Fn).Origin(fn.Origin).Apply(fn.MkRepl(rec)) }); pv != nil {
			s.Note("probe target %s refused: %v", fn.Name, pv)
			return
		}
		twice := 0
		args := argsFor(fn, 3)
		for d := 0; d < 420; d++ {
			for fine := 0; fine < 24; fine++ {
				before := rec.Calls
				vkit.AtDepthFine(d, fine, func() { _ = guard(func() { fn.Call(corpus.FormDirect, args) }) })
				if rec.Calls-before != 1 {
					twice++
				}
			}
		}
		if twice > 0 {
			s.KnownFinding("origin-morestack-reentry", fmt.Sprintf("%s mocked with an origin placeholder and called at 10080 stack depths: at %d of them one call ran the callback more than once", fn.Name, twice))
		} else {
			s.ProbeOK("origin-morestack-reentry")
		}
	}()
	s.Done()
}
