//go:build go1.18 && amd64
// +build go1.18,amd64

// Package c01: a mocked function runs the replacement with exact arguments and results (property C01).
package c01

import (
	"fmt"
	"os"
	"path/filepath"
	"reflect"
	"strings"
	"testing"

	mocker "github.com/tencent/goom"
	"github.com/tencent/goom/internal/patch"
	"github.com/tencent/goom/zverif/corpus"
	"github.com/tencent/goom/zverif/vkit"
	"pgregory.net/rapid"
)

type histCase struct {
	Ops []vkit.Op `json:"ops"`
	// Debug: the history runs with mocker.OpenDebug() (call logging wraps every callback); nothing the caller or the
	// replacement can observe may differ
	Debug bool `json:"debug_logging,omitempty"`
}

type tstate struct {
	kind   string // "" | repl | mf | ret
	rec    *corpus.Rec
	seq    [][]reflect.Value // ret: configured results, in order
	cursor int
	stale  bool // a When object from an earlier Return survives an Apply (finding C12/stale-when)
	orphan bool // mocked through a builder that has been dropped since
	mixed  bool // mocked by name over a mock made through Func: two independent mocker objects own the target until the reset
}

func argsFor(fn *corpus.Fn, codes []int64) []reflect.Value {
	n := fn.Type.NumIn()
	a := make([]reflect.Value, n)
	for i := 0; i < n; i++ {
		var c int64
		if i < len(codes) {
			c = codes[i]
		} else if len(codes) > 0 {
			c = codes[i%len(codes)] + int64(i)
		}
		a[i] = vkit.Value(fn.Type.In(i), uint64(c))
	}
	return a
}

func resultsFor(fn *corpus.Fn, code int64) []reflect.Value {
	r := make([]reflect.Value, fn.Type.NumOut())
	for i := range r {
		r[i] = vkit.Value(fn.Type.Out(i), uint64(code)+uint64(i)*7)
	}
	return r
}

func sameAll(a, b []reflect.Value) (int, bool) {
	if len(a) != len(b) {
		return -1, false
	}
	for i := range a {
		if !vkit.Same(a[i], b[i]) {
			return i, false
		}
	}
	return 0, true
}

func descAll(vs []reflect.Value) string {
	var p []string
	for _, v := range vs {
		p = append(p, vkit.Describe(v))
	}
	return "(" + strings.Join(p, ", ") + ")"
}

func nonZero(vs []reflect.Value) bool {
	for _, v := range vs {
		if !v.IsZero() {
			return true
		}
	}
	return false
}

const nTargets = 4

func runHist(ci interface{}, s *vkit.Stats) (err error) {
	c := ci.(*histCase)
	if c.Debug {
		mocker.OpenDebug()
		defer mocker.CloseDebug()
		s.Class("history-with-debug-logging")
	}
	b := mocker.Create()
	dropped := false
	defer func() {
		b.Reset() // b may have been replaced by a "reset" operation
		if dropped {
			patch.UnpatchAll() // mocks whose builder was dropped cannot be reset through the API any more
		}
	}()
	st := map[int]*tstate{}
	get := func(k int) *tstate {
		if st[k] == nil {
			st[k] = &tstate{}
		}
		return st[k]
	}
	afterGC, afterGrow := false, false
	nontrivial := false
	var fp []string
	for step, op := range c.Ops {
		for len(op.I) < 6 {
			op.I = append(op.I, 0)
		}
		// a history works on a window of nTargets corpus functions selected by its first operand
		k := (vkit.Pick(op.I[0], nTargets) + vkit.Pick(op.I[5], 1+len(corpus.Fns)/nTargets)*nTargets) % len(corpus.Fns)
		fn := corpus.Fns[k]
		t := get(k)
		if t.orphan && (op.K == "apply" || op.K == "applymf" || op.K == "ret") {
			s.Exclude("re-mock-of-a-target-whose-builder-was-dropped")
			continue
		}
		switch op.K {
		case "apply":
			if t.mixed {
				continue
			}
			t.rec = &corpus.Rec{}
			b.Func(fn.Fn).Apply(fn.MkRepl(t.rec))
			if t.kind == "ret" {
				t.stale = true
			}
			t.kind = "repl"
		case "applyname":
			// the same function addressed by its name (another mocker object than Func's); applied over whatever is live: from
			// here on calls run this callback. (Further instructions through the Func handle would go to a mocker that does not
			// know it was superseded - two owners, which no property describes - so they are not generated until the reset.)
			if t.orphan {
				continue
			}
			t.mixed = true
			t.rec = &corpus.Rec{}
			b.Pkg(corpus.PkgPath).ExportFunc(fn.Name).Apply(fn.MkRepl(t.rec))
			if t.kind == "ret" {
				t.stale = true
			}
			t.kind = "repl"
			s.Class("applied-by-name")
		case "applymf":
			if t.mixed {
				continue
			}
			rec := &corpus.Rec{}
			t.rec = rec
			cb := reflect.MakeFunc(fn.Type, func(args []reflect.Value) []reflect.Value {
				rec.Calls++
				rec.Args = append([]reflect.Value(nil), args...)
				return rec.Res
			}).Interface()
			b.Func(fn.Fn).Apply(cb)
			if t.kind == "ret" {
				t.stale = true
			}
			t.kind = "mf"
		case "ret":
			if t.mixed {
				continue
			}
			if t.stale && vkit.KnownOpen("stale-when-after-apply") {
				s.Exclude("return-after-apply-on-a-stubbed-target(known finding C12)")
				continue
			}
			res := resultsFor(fn, op.I[1])
			vals := make([]interface{}, len(res))
			for i, r := range res {
				vals[i] = r.Interface()
			}
			b.Func(fn.Fn).Return(vals...)
			if t.kind == "ret" {
				if len(res) > 0 {
					t.seq = append(t.seq, res) // a second Return on a live stub extends its sequence
				}
			} else {
				t.seq = [][]reflect.Value{res}
				t.cursor = 0
			}
			t.kind = "ret"
			t.stale = false
		case "gc":
			vkit.GC()
			afterGC = true
		case "churn":
			vkit.Churn(2000)
		case "dropgc":
			// the builder goes out of reach without a Reset (as in `mocker.Create().Func(f).Apply(cb)`): the mocks must
			// keep working "until reset", also after collections and heap reuse
			b = mocker.Create()
			dropped = true
			vkit.GC()
			vkit.ChurnSmall(15000)
			vkit.GC()
			afterGC = true
			s.Class("builder-dropped-then-gc")
			for _, t := range st {
				t.stale = false
				if t.kind != "" {
					t.orphan = true
				}
			}
		case "reset":
			b.Reset()
			b = mocker.Create()
			keep := map[int]*tstate{}
			for k, t := range st {
				if t.orphan {
					keep[k] = t // not reachable from this builder: stays mocked
				}
			}
			st = keep
		case "call":
			form := vkit.Pick(op.I[1], corpus.NumForms)
			depth := 0
			if vkit.Pick(op.I[2], 4) == 0 {
				depth = 20 + vkit.Pick(op.I[2]/4, 600)
				afterGrow = true
			}
			args := argsFor(fn, op.I[3:5])
			var want []reflect.Value
			switch t.kind {
			case "repl", "mf":
				t.rec.Res = resultsFor(fn, op.I[4]+3)
				want = t.rec.Res
				t.rec.Args = nil
			case "ret":
				if len(t.seq) > 0 {
					i := t.cursor
					if i >= len(t.seq) {
						i = len(t.seq) - 1
					}
					want = t.seq[i]
					if len(t.seq) > 1 {
						t.cursor++
					}
				}
			}
			callsBefore := 0
			if t.rec != nil {
				callsBefore = t.rec.Calls
			}
			origBefore := corpus.OrigRan[k]
			var got []reflect.Value
			var pv interface{}
			do := func() {
				defer func() { pv = recover() }()
				got = fn.Call(form, args)
			}
			if depth > 0 {
				vkit.AtDepth(depth, do)
			} else {
				do()
			}
			where := func() string {
				return fmt.Sprintf("step %d: %s %s [%s] called %s (depth %d, afterGC=%v) with %s", step, fn.Name, fn.Type, fn.ABI, corpus.FormNames[form], depth, afterGC, descAll(args))
			}
			if pv != nil {
				return fmt.Errorf("%s: panicked: %v", where(), pv)
			}
			origDelta := corpus.OrigRan[k] - origBefore
			switch t.kind {
			case "":
				if origDelta != 1 {
					return fmt.Errorf("%s: target is not mocked but its body ran %d times", where(), origDelta)
				}
				s.Class("call/unmocked")
			case "repl", "mf":
				if origDelta != 0 {
					return fmt.Errorf("%s: mocked with a callback but the original body ran", where())
				}
				if d := t.rec.Calls - callsBefore; d != 1 {
					return fmt.Errorf("%s: the replacement ran %d times", where(), d)
				}
				if i, ok := sameAll(args, t.rec.Args); !ok {
					return fmt.Errorf("%s: the replacement saw %s (argument %d differs)", where(), descAll(t.rec.Args), i)
				}
				if form != corpus.FormDefer {
					if i, ok := sameAll(want, got); !ok {
						return fmt.Errorf("%s: replacement returned %s, caller received %s (result %d differs)", where(), descAll(want), descAll(got), i)
					}
				}
			case "ret":
				if origDelta != 0 {
					return fmt.Errorf("%s: stubbed with Return but the original body ran", where())
				}
				if form != corpus.FormDefer {
					if i, ok := sameAll(want, got); !ok {
						return fmt.Errorf("%s: stubbed results %s, caller received %s (result %d differs)", where(), descAll(want), descAll(got), i)
					}
				}
			}
			if t.kind != "" {
				s.Class("call/" + t.kind)
				s.Class("abi/" + fn.ABI)
				s.Class("form/" + corpus.FormNames[form])
				s.Class(fmt.Sprintf("results/%d", fn.Type.NumOut()))
				if afterGC {
					s.Class("call/after-gc")
				}
				if t.orphan {
					s.Class("call/mock-of-dropped-builder-after-gc")
				}
				if depth > 0 {
					s.Class("call/after-stack-growth")
				}
				if (fn.Type.NumIn() > 0 || fn.Type.NumOut() > 0) && (nonZero(args) || nonZero(want)) {
					nontrivial = true
					fp = append(fp, fmt.Sprintf("%d/%d/%s/%v", k, form, t.kind, op.I[3:5]))
				}
			}
		}
	}
	_ = afterGrow
	if nontrivial {
		s.NonTrivial(strings.Join(fp, ";"))
	}
	s.Sample(c)
	return nil
}

var opGen = vkit.OpGen([]string{"apply", "applymf", "ret", "call", "gc", "churn", "reset", "dropgc", "applyname"}, []int{4, 2, 3, 12, 1, 1, 1, 1, 2}, 6)

func TestVerifC01(t *testing.T) {
	quiet()
	p := &vkit.Prop{ID: "C01", Unit: "histories", Journal: true,
		New: func() interface{} { return &histCase{} },
		Gen: func(rt *rapid.T) interface{} {
			ops := rapid.SliceOfN(opGen, 4, 30).Draw(rt, "ops")
			// all operations of a history share the target window
			w := int64(rapid.IntRange(0, len(corpus.Fns)/nTargets).Draw(rt, "window"))
			for i := range ops {
				ops[i].I[5] = w
			}
			return &histCase{Ops: ops, Debug: rapid.IntRange(0, 5).Draw(rt, "debug") == 0}
		},
		Run: runHist}
	s := p.Main(t, vkit.Scale(2500, 5000))
	if !vkit.Replaying() {
		s.Note("corpus seed %d, %d functions", corpus.Seed, len(corpus.Fns))
		s.Done()
	}
}

// library pairs: a mocked function is also seen by library code that calls it
func TestVerifC01Library(t *testing.T) {
	if vkit.Replaying() {
		return
	}
	quiet()
	s := vkit.NewStats("C01", "library-callers")
	defer s.Flush()
	b := mocker.Create()
	defer b.Reset()
	n := vkit.Scale(40, 400)
	for i := 0; i < n; i++ {
		key := fmt.Sprintf("VERIF_%d", i)
		val := fmt.Sprintf("mock-%d-%d", i, vkit.Seed())
		var seen string
		b.Func(os.Getenv).Apply(func(k string) string { seen = k; return val })
		got := os.ExpandEnv("a${" + key + "}b")
		b.Reset()
		b = mocker.Create()
		s.Eval(1)
		if got != "a"+val+"b" || seen != key {
			msg := fmt.Sprintf("os.Getenv mocked to return %q; os.ExpandEnv (library caller) produced %q, replacement saw key %q", val, got, seen)
			s.Violation(msg, map[string]string{"key": key})
			t.Fatal(msg)
		}
		if after := os.ExpandEnv("a${" + key + "}b"); after != "ab" {
			msg := fmt.Sprintf("after Reset os.ExpandEnv still yields %q", after)
			s.Violation(msg, map[string]string{"key": key})
			t.Fatal(msg)
		}
		s.NonTrivial(key)
	}
	// filepath.Join cleans its result through filepath.Clean; strings.Repeat is reached from strings.Title-like helpers
	for i := 0; i < n; i++ {
		tag := fmt.Sprintf("/mock/%d/%d", i, vkit.Seed())
		var seen string
		b.Func(filepath.Clean).Apply(func(p string) string { seen = p; return tag })
		got := filepath.Join("a", "..", fmt.Sprint("x", i))
		b.Reset()
		b = mocker.Create()
		s.Eval(1)
		if got != tag || seen == "" {
			msg := fmt.Sprintf("filepath.Clean mocked to return %q; filepath.Join (library caller) produced %q, replacement saw %q", tag, got, seen)
			s.Violation(msg, map[string]string{"i": fmt.Sprint(i)})
			t.Fatal(msg)
		}
		if after := filepath.Join("a", "..", fmt.Sprint("x", i)); after != fmt.Sprint("x", i) {
			msg := fmt.Sprintf("after Reset filepath.Join still yields %q", after)
			s.Violation(msg, map[string]string{"i": fmt.Sprint(i)})
			t.Fatal(msg)
		}
		s.NonTrivial(tag)
	}
	s.Sample(map[string]string{"target": "os.Getenv / filepath.Clean", "library caller": "os.ExpandEnv / filepath.Join"})
	s.Completed = true
}

func quiet() {
	// goom's console logger writes to os.Stdout; keep the test log readable
	if os.Getenv("VERIF_VERBOSE") == "" {
		if f, err := os.OpenFile(os.DevNull, os.O_WRONLY, 0); err == nil {
			os.Stdout = f
		}
	}
}
