//go:build go1.18
// +build go1.18

// Package c15kit drives jump emitters over address space (property C15):
// random pairs, exhaustive 16-bit lanes, exhaustive +-2GiB boundary windows.
package c15kit

import (
	"fmt"
	"testing"

	"github.com/tencent/goom/zverif/vkit"
	"pgregory.net/rapid"
)

// Emitter is one of goom's jump emitters plus the oracle that judges its output.
type Emitter struct {
	Name  string
	Emit  func(from, to uint64) []byte
	Judge func(code []byte, from, to uint64) error
	// UsesFrom: the emitter's choice depends on `from` (relative/absolute decision)
	UsesFrom bool
}

// Case is one (from,to) pair, or a sweep seeded by a pair.
type Case struct {
	Emitter string `json:"emitter"`
	Mode    string `json:"mode"` // pair | lanes | boundary
	From    uint64 `json:"from"`
	To      uint64 `json:"to"`
}

func lanesNonZero(v uint64) int {
	n := 0
	for i := 0; i < 4; i++ {
		if (v>>(16*uint(i)))&0xffff != 0 {
			n++
		}
	}
	return n
}

func nearBoundary(from, to uint64) bool {
	d := int64(to - from)
	if d < 0 {
		d = -d
	}
	x := d - (1 << 31)
	return x >= -128 && x <= 128
}

func one(e *Emitter, from, to uint64, s *vkit.Stats, count bool) (err error) {
	defer func() {
		if r := recover(); r != nil {
			err = fmt.Errorf("emitter %s panicked for from=%#x to=%#x: %v", e.Name, from, to, r)
		}
	}()
	code := e.Emit(from, to)
	if count {
		if err := e.Judge(append([]byte(nil), code...), from, to); err != nil {
			return fmt.Errorf("emitter %s from=%#x to=%#x emitted % x: %v", e.Name, from, to, code, err)
		}
		// a second sequence is emitted before the first is judged: a sequence handed out stays what it was
		from2, to2 := to^0x5a5a5a5a5a5a, from+0x1234567
		code2 := e.Emit(from2, to2)
		if err := e.Judge(code2, from2, to2); err != nil {
			return fmt.Errorf("emitter %s from=%#x to=%#x emitted % x: %v", e.Name, from2, to2, code2, err)
		}
		// every 16th pair: a hundred more sequences are emitted (and dropped) in between, as a process that patches many
		// functions does before it re-applies an early guard
		if (from^to)&15 == 3 {
			for i := uint64(1); i <= 100; i++ {
				_ = e.Emit(from2+i*64, to2+i*4099)
			}
			s.Class("pair/re-judged-after-100-later-emissions")
		}
		if err := e.Judge(code, from, to); err != nil {
			return fmt.Errorf("emitter %s from=%#x to=%#x: after another sequence (to=%#x) was emitted the first reads % x: %v", e.Name, from, to, to2, code, err)
		}
		return nonTrivial(e, from, to, s)
	}
	if err := e.Judge(code, from, to); err != nil {
		return fmt.Errorf("emitter %s from=%#x to=%#x emitted % x: %v", e.Name, from, to, code, err)
	}
	return nil
}

func nonTrivial(e *Emitter, from, to uint64, s *vkit.Stats) error {
	count := true
	if count && (lanesNonZero(to) >= 2 || nearBoundary(from, to)) {
		s.NonTrivialU(from*0x9e3779b97f4a7c15 ^ to ^ vkitHash(e.Name))
	}
	return nil
}

func vkitHash(s string) uint64 {
	var h uint64 = 1469598103934665603
	for i := 0; i < len(s); i++ {
		h ^= uint64(s[i])
		h *= 1099511628211
	}
	return h
}

// Run executes all C15 units for the given emitters.
func Run(t *testing.T, unit string, ems []Emitter) {
	byName := map[string]*Emitter{}
	var names []string
	for i := range ems {
		byName[ems[i].Name] = &ems[i]
		names = append(names, ems[i].Name)
	}
	runCase := func(ci interface{}, s *vkit.Stats) error {
		c := ci.(*Case)
		e := byName[c.Emitter]
		if e == nil {
			return nil
		}
		switch c.Mode {
		case "pair":
			s.Class("pair/" + e.Name)
			s.Sample(c)
			return one(e, c.From, c.To, s, true)
		case "lanes":
			// every 16-bit lane of `to` through all 65536 values, other lanes as drawn
			for lane := uint(0); lane < 4; lane++ {
				for v := uint64(0); v < 65536; v++ {
					to := (c.To &^ (0xffff << (16 * lane))) | v<<(16*lane)
					if err := one(e, c.From, to, s, false); err != nil {
						s.Violation(err.Error(), &Case{Emitter: c.Emitter, Mode: "pair", From: c.From, To: to})
						return err
					}
				}
			}
			s.Eval(4*65536 - 1)
			s.ClassN("lane-values/"+e.Name, 4*65536)
			s.NonTrivialU(c.From ^ c.To*31 ^ vkitHash(e.Name+"lanes"))
			return nil
		case "boundary":
			// to-from over +-2^31 +- 80, both signs, exhaustively
			n := 0
			for _, centre := range []int64{1 << 31, -(1 << 31)} {
				for off := int64(-80); off <= 80; off++ {
					to := c.From + uint64(centre+off)
					if err := one(e, c.From, to, s, true); err != nil {
						s.Violation(err.Error(), &Case{Emitter: c.Emitter, Mode: "pair", From: c.From, To: to})
						return err
					}
					n++
				}
			}
			s.Eval(n - 1)
			s.ClassN("boundary-pairs/"+e.Name, n)
			return nil
		}
		return fmt.Errorf("unknown mode %q", c.Mode)
	}
	addr := rapid.OneOf(
		rapid.Uint64(),
		rapid.Uint64Range(0x400000, 0x7fffffff),          // typical non-PIE text
		rapid.Uint64Range(0x550000000000, 0x7fffffffffff), // PIE / mmap area
		rapid.Uint64Range(0xc000000000, 0xc0ffffffff),     // Go heap arena
		rapid.Uint64Range(0, 0xffff),
		rapid.Uint64Range(0xffffffffffff0000, 0xffffffffffffffff),
	)
	mk := func(mode string) *vkit.Prop {
		return &vkit.Prop{ID: "C15", Unit: unit + "/" + mode,
			New: func() interface{} { return &Case{} },
			Gen: func(rt *rapid.T) interface{} {
				c := &Case{Mode: mode, Emitter: rapid.SampledFrom(names).Draw(rt, "emitter")}
				c.From = addr.Draw(rt, "from")
				if mode == "pair" && rapid.IntRange(0, 3).Draw(rt, "near") == 0 {
					// pairs near the relative/absolute decision boundary
					d := rapid.Int64Range(-(1<<31)-4096, (1<<31)+4096).Draw(rt, "delta")
					if rapid.Bool().Draw(rt, "edge") {
						sign := int64(1)
						if rapid.Bool().Draw(rt, "neg") {
							sign = -1
						}
						d = sign*(1<<31) + rapid.Int64Range(-16, 16).Draw(rt, "edgeoff")
					}
					c.To = c.From + uint64(d)
				} else {
					c.To = addr.Draw(rt, "to")
				}
				return c
			},
			Run: runCase,
		}
	}
	for _, m := range []struct {
		mode string
		n    int
		note string
	}{
		{"pair", vkit.Scale(60000, 1500000), "one (from,to) pair per case"},
		{"lanes", vkit.Scale(3*len(names), 12*len(names)), "each case sweeps 4x65536 values of `to`"},
		{"boundary", vkit.Scale(150, 3000), "each case sweeps to-from over +-2^31+-80"},
	} {
		p := mk(m.mode)
		s := p.Main(t, m.n)
		if !vkit.Replaying() {
			s.Sample(map[string]interface{}{"mode": m.mode, "note": m.note, "emitters": names})
			s.Done()
		}
	}
}
