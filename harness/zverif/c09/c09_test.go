//go:build go1.18 && amd64
// +build go1.18,amd64

// Package c09: stubbed values reach callers unaltered and typed as the function declares (property C09).
package c09

import (
	"fmt"
	"os"
	"reflect"
	"strings"
	"testing"
	"unsafe"

	mocker "github.com/tencent/goom"
	"github.com/tencent/goom/zverif/corpus"
	"github.com/tencent/goom/zverif/vkit"
	"pgregory.net/rapid"
)

// layout-identical stand-ins for the corpus struct types (an "otherwise unnameable type" is faked like this)
type fS2 struct {
	A int32
	B bool
	C string
}
type fS5 struct{ A, B, C, D, E uint64 }
type fSA struct {
	X [3]int64
	Y float64
}
type fSF struct {
	F float32
	G float64
}
type fSP struct {
	P *int
	I interface{}
	F func() int
}

type fS1P struct{ P *int }
type fS1M struct{ M map[string]int }
type fS1F struct{ F func() int }
type fS1N struct{ In fS1P }

var standIn = map[reflect.Type]reflect.Type{
	reflect.TypeOf(corpus.S1P{}): reflect.TypeOf(fS1P{}), reflect.TypeOf(corpus.S1M{}): reflect.TypeOf(fS1M{}),
	reflect.TypeOf(corpus.S1F{}): reflect.TypeOf(fS1F{}), reflect.TypeOf(corpus.S1N{}): reflect.TypeOf(fS1N{}),
	reflect.TypeOf(corpus.S2{}): reflect.TypeOf(fS2{}), reflect.TypeOf(corpus.S5{}): reflect.TypeOf(fS5{}), reflect.TypeOf(corpus.SA{}): reflect.TypeOf(fSA{}),
	reflect.TypeOf(corpus.SF{}): reflect.TypeOf(fSF{}), reflect.TypeOf(corpus.SP{}): reflect.TypeOf(fSP{}),
}

// a value of a different size for every type
func wrongSize(t reflect.Type) interface{} {
	switch t.Size() {
	case 1:
		return int16(7)
	case 2:
		return int32(7)
	case 4:
		return int64(7)
	case 8:
		return int32(7)
	case 16:
		return int64(7)
	default:
		return int64(7)
	}
}

func sameSizeOther(t reflect.Type) (interface{}, bool) {
	switch t.Kind() {
	case reflect.Int, reflect.Int64, reflect.Uint, reflect.Uintptr:
		return uint64(9), true
	case reflect.Uint64:
		return int64(9), true
	case reflect.Float64:
		return int64(9), true
	case reflect.Int32:
		return uint32(9), true
	case reflect.Float32:
		return int32(9), true
	}
	return nil, false
}

func nilable(k reflect.Kind) bool {
	switch k {
	case reflect.Ptr, reflect.Interface, reflect.Slice, reflect.Map, reflect.Chan, reflect.Func:
		return true
	}
	return false
}

type retCase struct {
	Fn    int      `json:"fn"`
	Name  string   `json:"fn_name"`
	Kinds []string `json:"kinds"` // per result: ordinary | untyped-nil | typed-nil | zero | standin | standin-ptr | wrong-size | same-size-other
	Codes []uint64 `json:"codes"`
}

func guard(f func()) (pv interface{}) {
	defer func() { pv = recover() }()
	f()
	return nil
}

// kindsFor lists the supply kinds that make sense for result type t
func kindsFor(t reflect.Type) []string {
	ks := []string{"ordinary", "ordinary", "zero"}
	if t.Kind() != reflect.Interface {
		ks = append(ks, "wrong-size") // interface results box any value: there is no "size of the declared type" to violate
	}
	if nilable(t.Kind()) {
		ks = append(ks, "untyped-nil", "untyped-nil")
		if t.Kind() != reflect.Interface {
			ks = append(ks, "typed-nil")
		}
	}
	if _, ok := standIn[t]; ok {
		ks = append(ks, "standin", "standin")
	}
	if t.Kind() == reflect.Ptr {
		if _, ok := standIn[t.Elem()]; ok {
			ks = append(ks, "standin-ptr", "standin-ptr")
		}
	}
	if _, ok := sameSizeOther(t); ok {
		ks = append(ks, "same-size-other")
	}
	return ks
}

func runRet(ci interface{}, s *vkit.Stats) error {
	c := ci.(*retCase)
	fn := corpus.Fns[c.Fn%len(corpus.Fns)]
	n := fn.Type.NumOut()
	if n == 0 || len(c.Kinds) != n {
		return nil
	}
	vals := make([]interface{}, n)
	want := make([]reflect.Value, n) // invalid = not judged
	expectReject := false
	notJudged := false
	for i := 0; i < n; i++ {
		t := fn.Type.Out(i)
		code := c.Codes[i]
		switch c.Kinds[i] {
		case "ordinary":
			v := vkit.Value(t, code)
			if v.Kind() == reflect.Interface && v.IsNil() {
				vals[i] = nil
			} else {
				vals[i] = v.Interface()
			}
			want[i] = v
		case "zero":
			v := reflect.Zero(t)
			if nilable(t.Kind()) {
				vals[i] = nil
				if t.Kind() != reflect.Interface {
					vals[i] = v.Interface() // typed zero
				}
			} else {
				vals[i] = v.Interface()
			}
			want[i] = reflect.New(t).Elem()
		case "untyped-nil":
			vals[i] = nil
			want[i] = reflect.New(t).Elem()
		case "typed-nil":
			vals[i] = reflect.Zero(t).Interface()
			want[i] = reflect.New(t).Elem()
		case "standin":
			ft := standIn[t]
			real := vkit.Value(t, code+1)
			if code%4 == 0 {
				real = reflect.New(t).Elem() // the zero value: all pointer-like fields nil
				s.Class("standin/zero-valued")
			}
			fake := reflect.NewAt(ft, unsafe.Pointer(real.Addr().Pointer())).Elem() // same bytes, stand-in type
			vals[i] = fake.Interface()
			if t.Size() == 8 {
				s.Class("standin/pointer-shaped-struct")
			}
			want[i] = real
		case "standin-ptr":
			ft := standIn[t.Elem()]
			real := vkit.Value(t, code+1) // *S2
			if real.IsNil() {
				real = reflect.New(t.Elem())
			}
			vals[i] = reflect.NewAt(ft, unsafe.Pointer(real.Pointer())).Interface() // *fS2 with the identical address
			want[i] = real
		case "wrong-size":
			vals[i] = wrongSize(t)
			expectReject = true
		case "same-size-other":
			v, _ := sameSizeOther(t)
			vals[i] = v
			notJudged = true
		}
	}
	b := mocker.Create()
	defer b.Reset()
	desc := func() string {
		var p []string
		for i := range vals {
			p = append(p, fmt.Sprintf("%s<-%s(%T)", fn.Type.Out(i), c.Kinds[i], vals[i]))
		}
		return fn.Name + " results " + strings.Join(p, ", ")
	}
	pv := guard(func() { b.Func(fn.Fn).Return(vals...) })
	if expectReject {
		if pv == nil {
			return fmt.Errorf("%s: a value whose size differs from the declared result type was accepted by Return", desc())
		}
		s.Class("rejected-wrong-size")
		s.NonTrivial(fmt.Sprint(c.Fn, c.Kinds))
		return nil
	}
	if notJudged {
		s.Exclude("same-size-value-of-another-scalar-type")
		return nil
	}
	if pv != nil {
		return fmt.Errorf("%s: Return panicked: %v", desc(), pv)
	}
	// the list handed to Return(vals...) stays the caller's: half of the cases reuse it for something else before the first
	// call (a table-driven test refilling one row); the stub must keep the values it was given
	reused := c.Codes[0]%2 == 0
	shown := desc()
	if reused {
		for i := range vals {
			vals[i] = struct{ Reused int }{i}
		}
		desc = func() string { return shown + " (the caller refilled its result list after Return)" }
		s.Class("caller-reused-its-result-list-after-Return")
	}
	args := make([]reflect.Value, fn.Type.NumIn())
	for i := range args {
		args[i] = vkit.Value(fn.Type.In(i), uint64(i)+3)
	}
	var got []reflect.Value
	if pv := guard(func() { got = fn.Call(corpus.FormDirect, args) }); pv != nil {
		return fmt.Errorf("%s: calling the stubbed function panicked: %v", desc(), pv)
	}
	for i := range want {
		if !want[i].IsValid() {
			continue
		}
		g := got[i]
		if !vkit.Same(want[i], g) {
			return fmt.Errorf("%s: result %d supplied as %s, caller received %s (want %s)", desc(), i, c.Kinds[i], vkit.Describe(g), vkit.Describe(want[i]))
		}
		if g.Kind() == reflect.Interface && !g.IsNil() && want[i].Elem().Type() != g.Elem().Type() {
			return fmt.Errorf("%s: result %d: dynamic type %v became %v", desc(), i, want[i].Elem().Type(), g.Elem().Type())
		}
		if c.Kinds[i] == "untyped-nil" && fn.Type.Out(i).String() == "error" {
			if e, _ := g.Interface().(error); e != nil {
				return fmt.Errorf("%s: a nil error result does not compare equal to nil", desc())
			}
		}
		s.Class("delivered/" + c.Kinds[i] + "/" + fn.Type.Out(i).Kind().String())
	}
	s.NonTrivial(fmt.Sprint(c.Fn, c.Kinds, c.Codes))
	s.Sample(c)
	return nil
}

// ---- the parameter side: values given to When are compared against arguments as values of the declared types ----

//go:noinline
func pPtr(p *corpus.S2, e error) int { return 1 }

//go:noinline
func pStruct(v corpus.S5, m map[string]int) int { return 2 }

//go:noinline
func pFunc(f func() int, s []int) int { return 3 }

//go:noinline
func pShaped(v corpus.S1P, n corpus.S1N) int { return 4 }

//go:noinline
func pIface(v interface{}, w interface{}) int { ifaceSink = v; return 5 }

var ifaceSink interface{}

// values of different dynamic types that the runtime boxes at shared addresses (zero-size values, empty strings, nil slices)
type keyA struct{}
type keyB struct{}
type nameA string
type nameB string

type whenCase struct {
	Target string `json:"target"`
	Kind   string `json:"kind"`
	Code   uint64 `json:"code"`
}

func runWhen(ci interface{}, s *vkit.Stats) error {
	c := ci.(*whenCase)
	b := mocker.Create()
	defer b.Reset()
	var got, miss int
	var pv interface{}
	switch c.Target {
	case "pPtr":
		real := &corpus.S2{A: int32(c.Code), C: "x"}
		var pat interface{} = real
		arg := real
		switch c.Kind {
		case "untyped-nil":
			pat, arg = nil, nil
		case "typed-nil":
			pat, arg = (*corpus.S2)(nil), nil
		case "standin-ptr":
			pat = (*fS2)(unsafe.Pointer(real))
		}
		pv = guard(func() {
			b.Func(pPtr).Return(-1).When(pat, nil).Return(100)
			got = pPtr(arg, nil)
			miss = pPtr(&corpus.S2{A: int32(c.Code) + 1}, nil)
		})
	case "pStruct":
		real := corpus.S5{A: c.Code, B: 2, E: 9}
		var pat interface{} = real
		if c.Kind == "standin" {
			pat = fS5{A: c.Code, B: 2, E: 9}
		}
		pv = guard(func() {
			b.Func(pStruct).Return(-1).When(pat, nil).Return(100)
			got = pStruct(real, nil)
			miss = pStruct(corpus.S5{A: c.Code + 1}, nil)
		})
	case "pShaped":
		x, y := int(c.Code), int(c.Code)+1
		real := corpus.S1P{P: &x}
		var pat interface{} = real
		if c.Kind == "standin" {
			pat = fS1P{P: &x}
		}
		pv = guard(func() {
			b.Func(pShaped).Return(-1).When(pat, corpus.S1N{}).Return(100)
			got = pShaped(real, corpus.S1N{})
			miss = pShaped(corpus.S1P{P: &y}, corpus.S1N{})
		})
	case "pIface":
		// the dynamic type of a condition value for an interface-typed parameter is part of the value: an argument of another
		// dynamic type is a different argument, also when both are zero-size / empty / nil and share their storage
		pairs := [][2]interface{}{{keyA{}, keyB{}}, {nameA(""), nameB("")}, {[]int(nil), []string(nil)}, {[0]int{}, [0]string{}}, {nameA("x"), nameB("x")}, {keyA{}, struct{}{}}}
		pr := pairs[int(c.Code)%len(pairs)]
		same, other := pr[0], pr[1]
		if c.Kind == "swapped" {
			same, other = other, same
		}
		pv = guard(func() {
			b.Func(pIface).Return(-1).When(same, 1).Return(100)
			got = pIface(same, 1)
			miss = pIface(other, 1)
		})
	default:
		pv = guard(func() {
			b.Func(pFunc).Return(-1).When(nil, nil).Return(100)
			got = pFunc(nil, nil)
			miss = pFunc(func() int { return 0 }, nil)
		})
	}
	if pv != nil {
		return fmt.Errorf("%s with a %s condition value: panicked: %v", c.Target, c.Kind, pv)
	}
	if got != 100 || miss != -1 {
		return fmt.Errorf("%s with a %s condition value: the equal argument yielded %d (want 100), a different argument yielded %d (want -1)", c.Target, c.Kind, got, miss)
	}
	s.Class("when/" + c.Target + "/" + c.Kind)
	s.NonTrivial(fmt.Sprint(*c))
	return nil
}

// ---- condition histories: When / In over every corpus signature, repeated over the same function ----

type condStep struct {
	Form  string   `json:"form"`  // when | in | when-in
	NVar  int      `json:"nvar"`  // number of variadic elements supplied (variadic functions)
	Kinds []string `json:"kinds"` // per flat parameter: ordinary | nil | standin | standin-ptr
	Codes []uint64 `json:"codes"`
}

type condCase struct {
	Fn    int        `json:"fn"`
	Name  string     `json:"fn_name"`
	Steps []condStep `json:"steps"`
}

// flatTypes lists the parameter types with the variadic parameter expanded to nvar elements
func flatTypes(fn *corpus.Fn, nvar int) []reflect.Type {
	var ts []reflect.Type
	for i := 0; i < fn.NFixed; i++ {
		ts = append(ts, fn.Type.In(i))
	}
	if fn.Variadic {
		for i := 0; i < nvar; i++ {
			ts = append(ts, fn.Type.In(fn.NFixed).Elem())
		}
	}
	return ts
}

func condKinds(t reflect.Type) []string {
	ks := []string{"ordinary", "ordinary", "ordinary"}
	if nilable(t.Kind()) {
		ks = append(ks, "nil")
	}
	if _, ok := standIn[t]; ok {
		ks = append(ks, "standin", "standin")
	}
	if t.Kind() == reflect.Ptr {
		if _, ok := standIn[t.Elem()]; ok {
			ks = append(ks, "standin-ptr", "standin-ptr")
		}
	}
	return ks
}

// deref mirrors the one level of indirection the matcher removes before comparing
func deref(v reflect.Value) reflect.Value {
	if (v.Kind() == reflect.Interface || v.Kind() == reflect.Ptr) && !v.IsNil() {
		return v.Elem()
	}
	return v
}

// surelyEqual: content-equal in a way every reading of "compared as values of the declared type" accepts
func surelyEqual(a, b reflect.Value) bool {
	if !a.IsValid() || !b.IsValid() {
		return false
	}
	a, b = deref(a), deref(b)
	if !a.IsValid() || !b.IsValid() || !a.CanInterface() || !b.CanInterface() {
		return false
	}
	return reflect.DeepEqual(a.Interface(), b.Interface())
}

// build makes, for one flat parameter, the condition value handed to goom and an independently built argument equal to it
func buildCond(t reflect.Type, kind string, code uint64) (pat interface{}, arg reflect.Value) {
	fresh := func() reflect.Value {
		rv := reflect.New(t).Elem()
		rv.Set(vkit.Value(t, code))
		return rv
	}
	switch kind {
	case "nil":
		return nil, reflect.New(t).Elem()
	case "standin":
		real := fresh()
		return reflect.NewAt(standIn[t], unsafe.Pointer(real.Addr().Pointer())).Elem().Interface(), fresh()
	case "standin-ptr":
		real := fresh()
		if real.IsNil() {
			real.Set(reflect.New(t.Elem()))
		}
		a := fresh()
		if a.IsNil() {
			a.Set(reflect.New(t.Elem()))
		}
		return reflect.NewAt(standIn[t.Elem()], unsafe.Pointer(real.Pointer())).Interface(), a
	}
	v := fresh()
	if v.Kind() == reflect.Interface && v.IsNil() {
		return nil, fresh()
	}
	return v.Interface(), fresh()
}

// callArgs packs flat argument values into the argument list of the function (variadic elements into the slice)
func callArgs(fn *corpus.Fn, flat []reflect.Value) []reflect.Value {
	args := append([]reflect.Value(nil), flat[:fn.NFixed]...)
	if fn.Variadic {
		sl := reflect.MakeSlice(fn.Type.In(fn.NFixed), 0, len(flat)-fn.NFixed)
		sl = reflect.Append(sl, flat[fn.NFixed:]...)
		args = append(args, sl)
	}
	return args
}

func distinctScalar(t reflect.Type) bool {
	switch t.Kind() {
	case reflect.Int, reflect.Int8, reflect.Int16, reflect.Int32, reflect.Int64, reflect.Uint, reflect.Uint8, reflect.Uint16, reflect.Uint32, reflect.Uint64,
		reflect.Uintptr, reflect.String:
		return true
	}
	return false
}

func runCondHist(ci interface{}, s *vkit.Stats) error {
	c := ci.(*condCase)
	fn := corpus.Fns[c.Fn%len(corpus.Fns)]
	nout := fn.Type.NumOut()
	if nout == 0 {
		return nil
	}
	res := func(code uint64) []reflect.Value {
		r := make([]reflect.Value, nout)
		for i := range r {
			r[i] = vkit.Value(fn.Type.Out(i), code+uint64(i))
		}
		return r
	}
	ifs := func(vs []reflect.Value) []interface{} {
		o := make([]interface{}, len(vs))
		for i, v := range vs {
			if v.Kind() == reflect.Interface && v.IsNil() {
				continue
			}
			o[i] = v.Interface()
		}
		return o
	}
	same := func(a, b []reflect.Value) bool {
		for i := range a {
			if !vkit.ContentEqual(a[i], b[i]) {
				return false
			}
		}
		return true
	}
	D, R, R2 := res(1100), res(2200), res(3300)
	if same(D, R) || same(D, R2) || same(R, R2) {
		s.Exclude("result-values-indistinguishable")
		return nil
	}
	which := func(got []reflect.Value) string {
		switch {
		case same(got, R):
			return "the condition's result"
		case same(got, R2):
			return "the second condition's result"
		case same(got, D):
			return "the default result"
		}
		return "an unexpected result " + vkit.Describe(got[0])
	}
	judged := 0
	for si, st := range c.Steps {
		ts := flatTypes(fn, st.NVar)
		if len(st.Kinds) != len(ts) || len(st.Codes) != len(ts) || len(ts) == 0 {
			return nil
		}
		mk := func(shift uint64) (pats []interface{}, args []reflect.Value, sure bool) {
			sure = true
			for i, t := range ts {
				p, a := buildCond(t, st.Kinds[i], st.Codes[i]+shift)
				pats, args = append(pats, p), append(args, a)
				if p == nil {
					if !(nilable(t.Kind()) && a.IsNil()) {
						sure = false
					}
					continue
				}
				pv := reflect.ValueOf(p)
				if st.Kinds[i] == "standin" {
					pv = reflect.NewAt(t, unsafe.Pointer(func() uintptr { x := reflect.New(pv.Type()); x.Elem().Set(pv); return x.Pointer() }())).Elem()
				} else if st.Kinds[i] == "standin-ptr" {
					pv = reflect.NewAt(t.Elem(), unsafe.Pointer(pv.Pointer()))
				}
				if !surelyEqual(pv, a) || vkit.HasNaN(a) {
					sure = false
				}
			}
			return
		}
		pats, args, sure := mk(0)
		pats2, args2, sure2 := mk(7777)
		desc := fmt.Sprintf("step %d (%s on %s %v, condition values supplied as %v)", si, st.Form, fn.Name, fn.Type, st.Kinds)
		b := mocker.Create()
		var w *mocker.When
		pv := guard(func() {
			w = b.Func(fn.Fn).Return(ifs(D)...)
			switch st.Form {
			case "when":
				w.When(pats...).Return(ifs(R)...)
			case "in":
				w.In(pats, pats2).Return(ifs(R)...)
			default:
				w.When(pats...).Return(ifs(R)...)
				w.In(pats2).Return(ifs(R2)...)
			}
		})
		if pv != nil {
			b.Reset()
			return fmt.Errorf("%s: configuring the conditions panicked: %v", desc, pv)
		}
		probe := func(label string, flat []reflect.Value, want []reflect.Value, wantName string) error {
			var got []reflect.Value
			if pv := guard(func() { got = fn.Call(corpus.FormDirect, callArgs(fn, flat)) }); pv != nil {
				return fmt.Errorf("%s: calling with %s panicked: %v", desc, label, pv)
			}
			if !same(got, want) {
				return fmt.Errorf("%s: a call with %s yielded %s, want %s", desc, label, which(got), wantName)
			}
			judged++
			return nil
		}
		// the two tuples are told apart by a scalar argument (otherwise a call may legitimately satisfy both conditions)
		apart := false
		for i, t := range ts {
			if distinctScalar(t) && st.Kinds[i] == "ordinary" && fmt.Sprint(args[i].Interface()) != fmt.Sprint(args2[i].Interface()) {
				apart = true
			}
		}
		var err error
		if sure && (apart || st.Form != "when-in") {
			err = probe("arguments equal to the condition values", args, R, "the condition's result")
		}
		if err == nil && sure2 && (st.Form == "in" || (st.Form == "when-in" && apart)) {
			wantR, wn := R, "the condition's result"
			if st.Form == "when-in" {
				wantR, wn = R2, "the second condition's result"
			}
			err = probe("arguments equal to the second tuple of In", args2, wantR, wn)
		}
		if err == nil {
			// one distinguishable scalar argument differs from both tuples
			for i, t := range ts {
				if !distinctScalar(t) || st.Kinds[i] != "ordinary" {
					continue
				}
				alt := vkit.Value(t, st.Codes[i]+424242)
				if fmt.Sprint(alt.Interface()) == fmt.Sprint(args[i].Interface()) || fmt.Sprint(alt.Interface()) == fmt.Sprint(args2[i].Interface()) {
					continue
				}
				other := append([]reflect.Value(nil), args...)
				other[i] = alt
				err = probe(fmt.Sprintf("argument %d different from every condition", i), other, D, "the default result")
				break
			}
		}
		b.Reset()
		if err != nil {
			return err
		}
		s.Class("condhist/" + st.Form)
		for i := range ts {
			s.Class("condhist/param/" + st.Kinds[i] + "/" + ts[i].Kind().String())
		}
		if fn.Variadic {
			s.Class("condhist/variadic/" + st.Form)
		}
	}
	if judged > 0 {
		if len(c.Steps) > 1 {
			s.Class("condhist/multi-step")
			if fn.Variadic {
				s.Class("condhist/multi-step-variadic")
			}
		}
		s.NonTrivial(fmt.Sprint(*c))
		s.Sample(c)
	}
	return nil
}

func quiet() {
	if f, err := os.OpenFile(os.DevNull, os.O_WRONLY, 0); err == nil && os.Getenv("VERIF_VERBOSE") == "" {
		os.Stdout = f
	}
}

func TestVerifC09(t *testing.T) {
	quiet()
	var withResults []int
	for i, f := range corpus.Fns {
		if f.Type.NumOut() > 0 {
			withResults = append(withResults, i)
		}
	}
	p := &vkit.Prop{ID: "C09", Unit: "results", Journal: true, New: func() interface{} { return &retCase{} },
		Gen: func(rt *rapid.T) interface{} {
			c := &retCase{Fn: rapid.SampledFrom(withResults).Draw(rt, "fn")}
			fn := corpus.Fns[c.Fn]
			c.Name = fn.Name
			for i := 0; i < fn.Type.NumOut(); i++ {
				c.Kinds = append(c.Kinds, rapid.SampledFrom(kindsFor(fn.Type.Out(i))).Draw(rt, "kind"))
				c.Codes = append(c.Codes, uint64(vkit.ValueCode().Draw(rt, "code")))
			}
			return c
		},
		Run: runRet}
	s := p.Main(t, vkit.Scale(4000, 60000))
	if !vkit.Replaying() {
		s.Done()
	}
	w := &vkit.Prop{ID: "C09", Unit: "conditions", New: func() interface{} { return &whenCase{} },
		Gen: func(rt *rapid.T) interface{} {
			tg := rapid.SampledFrom([]string{"pPtr", "pStruct", "pFunc", "pShaped", "pIface", "pIface"}).Draw(rt, "target")
			kinds := map[string][]string{"pPtr": {"ordinary", "untyped-nil", "typed-nil", "standin-ptr"}, "pStruct": {"ordinary", "standin"}, "pFunc": {"untyped-nil"}, "pShaped": {"ordinary", "standin"},
				"pIface": {"as-given", "swapped"}}
			return &whenCase{Target: tg, Kind: rapid.SampledFrom(kinds[tg]).Draw(rt, "kind"), Code: uint64(rapid.IntRange(0, 1000).Draw(rt, "code"))}
		},
		Run: runWhen}
	ws := w.Main(t, vkit.Scale(300, 3000))
	if !vkit.Replaying() {
		ws.Done()
	}
	var variadicWithResults []int
	for _, i := range withResults {
		if corpus.Fns[i].Variadic {
			variadicWithResults = append(variadicWithResults, i)
		}
	}
	h := &vkit.Prop{ID: "C09", Unit: "condition-histories", New: func() interface{} { return &condCase{} },
		Gen: func(rt *rapid.T) interface{} {
			pool := withResults
			if len(variadicWithResults) > 0 && rapid.Bool().Draw(rt, "variadic") {
				pool = variadicWithResults
			}
			c := &condCase{Fn: rapid.SampledFrom(pool).Draw(rt, "fn")}
			fn := corpus.Fns[c.Fn]
			c.Name = fn.Name
			n := rapid.IntRange(1, 3).Draw(rt, "steps")
			for k := 0; k < n; k++ {
				st := condStep{Form: rapid.SampledFrom([]string{"when", "in", "when-in"}).Draw(rt, "form")}
				if fn.Variadic {
					st.NVar = rapid.IntRange(1, 3).Draw(rt, "nvar")
				}
				for _, t := range flatTypes(fn, st.NVar) {
					st.Kinds = append(st.Kinds, rapid.SampledFrom(condKinds(t)).Draw(rt, "kind"))
					st.Codes = append(st.Codes, uint64(vkit.ValueCode().Draw(rt, "code")))
				}
				c.Steps = append(c.Steps, st)
			}
			return c
		},
		Run: runCondHist}
	hs := h.Main(t, vkit.Scale(1500, 20000))
	if !vkit.Replaying() {
		hs.Done()
	}
}

// ---- one stand-in type standing in for several declared types of the same layout ----

type hidA struct {
	A int32
	B bool
	C string
}
type hidB struct {
	A int32
	B bool
	C string
}
type hidC struct {
	A int32
	B bool
	C string
}

//go:noinline
func retA(x int) hidA { return hidA{A: int32(x)} }

//go:noinline
func retB(x int) hidB { return hidB{A: int32(x)} }

//go:noinline
func retC(x int) hidC { return hidC{A: int32(x)} }

//go:noinline
func retPA(x int) *hidA { return &hidA{A: int32(x)} }

//go:noinline
func retPB(x int) *hidB { return &hidB{A: int32(x)} }

//go:noinline
func retPC(x int) *hidC { return &hidC{A: int32(x)} }

//go:noinline
func argA(v hidA) int { return 1 }

//go:noinline
func argB(v hidB) int { return 2 }

//go:noinline
func argPA(v *hidA) int { return 3 }

//go:noinline
func argPB(v *hidB) int { return 4 }

type reuseCase struct {
	Steps []int    `json:"steps"` // target per step: 0 retA 1 retB 2 retC 3 retPA 4 retPB 5 retPC 6 argA 7 argB 8 argPA 9 argPB
	Codes []uint64 `json:"codes"`
}

func runReuse(ci interface{}, s *vkit.Stats) error {
	c := ci.(*reuseCase)
	names := []string{"retA", "retB", "retC", "retPA", "retPB", "retPC", "argA", "argB", "argPA", "argPB"}
	seenVal, seenPtr := map[int]bool{}, map[int]bool{}
	for i, tg := range c.Steps {
		tg %= len(names)
		code := c.Codes[i%len(c.Codes)]
		fake := fS2{A: int32(code), B: code%2 == 0, C: fmt.Sprint("s", code)}
		b := mocker.Create()
		var err error
		check := func(got interface{}, a int32, bb bool, cc string) {
			if err == nil && (a != fake.A || bb != fake.B || cc != fake.C) {
				err = fmt.Errorf("step %d: %s stubbed with a stand-in %+v delivered %+v", i, names[tg], fake, got)
			}
		}
		pv := guard(func() {
			switch tg {
			case 0:
				b.Func(retA).Return(fake)
				g := retA(1)
				check(g, g.A, g.B, g.C)
			case 1:
				b.Func(retB).Return(fake)
				g := retB(1)
				check(g, g.A, g.B, g.C)
			case 2:
				b.Func(retC).Return(fake)
				g := retC(1)
				check(g, g.A, g.B, g.C)
			case 3:
				b.Func(retPA).Return(&fake)
				g := retPA(1)
				check(g, g.A, g.B, g.C)
			case 4:
				b.Func(retPB).Return(&fake)
				g := retPB(1)
				check(g, g.A, g.B, g.C)
			case 5:
				b.Func(retPC).Return(&fake)
				g := retPC(1)
				check(g, g.A, g.B, g.C)
			case 6:
				b.Func(argA).Return(-1).When(fake).Return(100)
				if g, m := argA(hidA{fake.A, fake.B, fake.C}), argA(hidA{fake.A + 1, fake.B, fake.C}); g != 100 || m != -1 {
					err = fmt.Errorf("step %d: argA with a stand-in condition: equal argument -> %d (want 100), different -> %d (want -1)", i, g, m)
				}
			case 7:
				b.Func(argB).Return(-1).When(fake).Return(100)
				if g, m := argB(hidB{fake.A, fake.B, fake.C}), argB(hidB{fake.A + 1, fake.B, fake.C}); g != 100 || m != -1 {
					err = fmt.Errorf("step %d: argB with a stand-in condition: equal argument -> %d (want 100), different -> %d (want -1)", i, g, m)
				}
			case 8:
				b.Func(argPA).Return(-1).When(&fake).Return(100)
				if g, m := argPA(&hidA{fake.A, fake.B, fake.C}), argPA(&hidA{fake.A + 1, fake.B, fake.C}); g != 100 || m != -1 {
					err = fmt.Errorf("step %d: argPA with a stand-in pointer condition: equal argument -> %d (want 100), different -> %d (want -1)", i, g, m)
				}
			case 9:
				b.Func(argPB).Return(-1).When(&fake).Return(100)
				if g, m := argPB(&hidB{fake.A, fake.B, fake.C}), argPB(&hidB{fake.A + 1, fake.B, fake.C}); g != 100 || m != -1 {
					err = fmt.Errorf("step %d: argPB with a stand-in pointer condition: equal argument -> %d (want 100), different -> %d (want -1)", i, g, m)
				}
			}
		})
		b.Reset()
		if pv != nil {
			return fmt.Errorf("step %d: %s with a stand-in of identical layout panicked (the stand-in type had %d earlier uses in this history): %v", i, names[tg], i, pv)
		}
		if err != nil {
			return err
		}
		declared := tg % 3
		if tg >= 6 {
			declared = (tg - 6) % 2
		}
		byPtr := (tg >= 3 && tg <= 5) || tg >= 8
		m := seenVal
		if byPtr {
			m = seenPtr
		}
		m[declared] = true
		if len(m) >= 2 {
			s.Class("one-stand-in-type-for-several-declared-types")
		}
	}
	s.Class("reuse-histories")
	s.NonTrivial(fmt.Sprint(c.Steps))
	return nil
}

func TestVerifC09Reuse(t *testing.T) {
	quiet()
	p := &vkit.Prop{ID: "C09", Unit: "standin-reuse", New: func() interface{} { return &reuseCase{} },
		Gen: func(rt *rapid.T) interface{} {
			return &reuseCase{Steps: rapid.SliceOfN(rapid.IntRange(0, 9), 2, 6).Draw(rt, "steps"), Codes: rapid.SliceOfN(rapid.Uint64Range(0, 1000), 1, 3).Draw(rt, "codes")}
		},
		Run: runReuse}
	s := p.Main(t, vkit.Scale(600, 6000))
	if !vkit.Replaying() {
		s.Done()
	}
}

// ---- values of the types goom itself computes with (reflect.Value, reflect.Type, []interface{}) are values like any other ----

//go:noinline
func rvFn(x int) reflect.Value { return reflect.ValueOf(x) }

//go:noinline
func anyFn(x int) interface{} { return x }

//go:noinline
func rvArg(v reflect.Value) int { return 1 }

//go:noinline
func rtFn(x int) reflect.Type { return reflect.TypeOf(x) }

//go:noinline
func tupleFn(x int) []interface{} { return []interface{}{x} }

type selfCase struct {
	Target  string `json:"target"`  // rvFn | anyFn | rvArg | rtFn | tupleFn
	Payload int    `json:"payload"` // what the reflect.Value describes
}

func runSelfTyped(ci interface{}, s *vkit.Stats) error {
	c := ci.(*selfCase)
	n := 7
	payloads := []interface{}{42, "text", []int{1, 2, 3}, &n, struct{ A, B int }{1, 2}, nil, map[string]int{"a": 1}, 2.5}
	pl := payloads[c.Payload%len(payloads)]
	rv := reflect.ValueOf(pl) // the zero Value for the nil payload
	same := func(a, b reflect.Value) bool {
		if a.IsValid() != b.IsValid() {
			return false
		}
		if !a.IsValid() {
			return true
		}
		if a.Type() != b.Type() {
			return false
		}
		if a.Kind() == reflect.Ptr || a.Kind() == reflect.Map || a.Kind() == reflect.Slice {
			return a.Pointer() == b.Pointer() && (a.Kind() != reflect.Slice || a.Len() == b.Len())
		}
		return reflect.DeepEqual(a.Interface(), b.Interface())
	}
	b := mocker.Create()
	defer b.Reset()
	var err error
	pv := guard(func() {
		switch c.Target {
		case "rvFn":
			b.Func(rvFn).Return(rv)
			if got := rvFn(1); !same(got, rv) {
				err = fmt.Errorf("rvFn stubbed with reflect.ValueOf(%T): the caller received a reflect.Value of %v, want the one supplied", pl, describeRV(got))
			}
		case "anyFn":
			b.Func(anyFn).Return(rv)
			got, ok := anyFn(1).(reflect.Value)
			if !ok {
				err = fmt.Errorf("anyFn (interface{} result) stubbed with a reflect.Value of %T: the caller received dynamic type %T, want reflect.Value", pl, anyFn(1))
			} else if !same(got, rv) {
				err = fmt.Errorf("anyFn stubbed with a reflect.Value of %T: the boxed reflect.Value differs: %v", pl, describeRV(got))
			}
		case "rvArg":
			other := reflect.ValueOf(struct{ X string }{"other"})
			b.Func(rvArg).Return(-1).When(rv).Return(100)
			if g, m := rvArg(rv), rvArg(other); g != 100 || m != -1 {
				err = fmt.Errorf("rvArg with the condition value reflect.ValueOf(%T): the same reflect.Value -> %d (want 100), another -> %d (want -1)", pl, g, m)
			}
		case "rtFn":
			want := reflect.TypeOf(pl)
			if want == nil {
				want = reflect.TypeOf(0)
			}
			b.Func(rtFn).Return(want)
			if got := rtFn(1); got != want {
				err = fmt.Errorf("rtFn stubbed with reflect.TypeOf(%T): caller received %v", pl, got)
			}
		default:
			want := []interface{}{pl, 1, "x"}
			b.Func(tupleFn).Return(want)
			if got := tupleFn(1); len(got) != 3 || &got[0] != &want[0] {
				err = fmt.Errorf("tupleFn ([]interface{} result) stubbed with a 3-element slice: caller received %v", got)
			}
		}
	})
	if pv != nil {
		return fmt.Errorf("%s with payload %T: panicked: %v", c.Target, pl, pv)
	}
	if err != nil {
		return err
	}
	s.Class("self-typed/" + c.Target)
	s.NonTrivial(fmt.Sprint(*c))
	return nil
}

func describeRV(v reflect.Value) string {
	if !v.IsValid() {
		return "<invalid>"
	}
	return fmt.Sprintf("%v(%v)", v.Type(), v)
}

func TestVerifC09SelfTyped(t *testing.T) {
	quiet()
	p := &vkit.Prop{ID: "C09", Unit: "self-typed-values", Journal: true, New: func() interface{} { return &selfCase{} },
		Gen: func(rt *rapid.T) interface{} {
			return &selfCase{Target: rapid.SampledFrom([]string{"rvFn", "anyFn", "rvArg", "rtFn", "tupleFn"}).Draw(rt, "target"), Payload: rapid.IntRange(0, 7).Draw(rt, "payload")}
		},
		Run: runSelfTyped}
	s := p.Main(t, vkit.Scale(200, 1000))
	if !vkit.Replaying() {
		s.Done()
	}
}
