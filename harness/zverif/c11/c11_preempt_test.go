//go:build go1.18 && amd64 && linux
// +build go1.18,amd64,linux

package c11

import (
	"fmt"
	"os"
	"os/exec"
	"reflect"
	"runtime"
	"strings"
	"sync"
	"sync/atomic"
	"testing"
	"time"

	mocker "github.com/tencent/goom"
	"github.com/tencent/goom/zverif/vkit"
)

// Schedules the rounds of TestVerifC11 reach only by luck are forced here: callers of origin-forwarding callbacks run
// next to a goroutine that starts one collection after the other, so that in every cycle each caller is stopped by a
// preemption signal at an arbitrary instruction and its stack is scanned right there. A child process runs the stress
// (a death must not take the statistics with it):
//   - clean: (frameless leaf target, frameless leaf placeholder) pairs the judge frameMismatch admits - the pairs the
//     rounds use. The child must survive: this is what makes the exclusion of the open finding
//     origin-placeholder-frame-metadata a sound one rather than a hope.
//   - framed: a target with a frame and an ordinary placeholder, the pair the judge rejects. Whether the child dies is
//     recorded, not judged (open finding; its deterministic probe is the judge itself).

//go:noinline
func stressLeafI(x int) int { return x*3 + 1 }

//go:noinline
func stressLeafF(x float64) float64 { return x*3.25 + 1.5 }

//go:noinline
//go:nosplit
func stressFramed(a, b int) int {
	var buf [8]int
	for i := range buf {
		buf[i] = a + i
	}
	return buf[b&7] + b
}

// an ordinary placeholder as the README shows them: a small frame behind a stack check
var stressFramedPH = func(a, b int) int {
	vkit.Sink(uint64(a))
	vkit.Sink(uint64(b))
	vkit.Sink(uint64(a + b))
	vkit.Sink(uint64(a - b))
	return a + b
}

//go:noinline
func stressPlain(a, b int) int {
	var buf [8]int
	for i := range buf {
		buf[i] = a + i
	}
	vkit.Sink(uint64(buf[b&7]))
	return buf[b&7] + b
}

var stressLeafIPH = func(x int) int {
	x = x*31 + 7
	x ^= x >> 5
	x = x*131 + 11
	x ^= x >> 7
	x = x*137 + 3
	x ^= x >> 9
	x = x*139 + 5
	x ^= x >> 11
	return x
}

var stressLeafFPH = func(x float64) float64 {
	x = x*1.5 + 2
	x = x*x + 3
	x = x*2.5 + 4
	x = x*x + 5
	x = x*3.5 + 6
	x = x*x + 7
	return x
}

func stressChild(mode string, secs int) {
	img = vkit.SnapshotText()
	b := mocker.Create()
	var loops []func(i int) bool
	switch mode {
	case "clean":
		b.Func(stressLeafI).Origin(&stressLeafIPH).Apply(func(x int) int { return stressLeafIPH(x) + 1000 })
		b.Func(stressLeafF).Origin(&stressLeafFPH).Apply(func(x float64) float64 { return stressLeafFPH(x) + 0.5 })
		for _, ph := range []interface{}{stressLeafIPH, stressLeafFPH} {
			if mm, judged := frameMismatch(reflect.ValueOf(ph).Pointer()); !judged || mm != "" {
				fmt.Printf("NOTCLEAN judged=%v %s\n", judged, mm)
				os.Exit(3)
			}
		}
		loops = append(loops, func(i int) bool { return stressLeafI(i) == i*3+1+1000 },
			func(i int) bool { x := float64(i); return stressLeafF(x) == x*3.25+1.5+0.5 })
	case "entryjump":
		b.Func(stressPlain).Apply(func(a, b int) int { return a - b })
		loops = append(loops, func(i int) bool { return stressPlain(i, 3) == i-3 })
	case "framed":
		b.Func(stressFramed).Origin(&stressFramedPH).Apply(func(a, b int) int { return stressFramedPH(a, b) + 1 })
		mm, judged := frameMismatch(reflect.ValueOf(stressFramedPH).Pointer())
		fmt.Printf("JUDGE judged=%v %s\n", judged, mm)
		loops = append(loops, func(i int) bool { _ = stressFramed(i, i&7); return true })
	}
	var stop int32
	var bad int64
	var wg sync.WaitGroup
	for g := 0; g < 3; g++ {
		wg.Add(1)
		go func(g int) {
			defer wg.Done()
			for i := 0; atomic.LoadInt32(&stop) == 0; i++ {
				for _, l := range loops {
					if !l(i) {
						atomic.AddInt64(&bad, 1)
					}
				}
			}
		}(g)
	}
	wg.Add(1)
	var cycles int64
	go func() {
		defer wg.Done()
		for atomic.LoadInt32(&stop) == 0 {
			runtime.GC()
			atomic.AddInt64(&cycles, 1)
		}
	}()
	time.Sleep(time.Duration(secs) * time.Second)
	atomic.StoreInt32(&stop, 1)
	wg.Wait()
	b.Reset()
	fmt.Printf("SURVIVED cycles=%d bad=%d\n", cycles, bad)
	if bad != 0 {
		os.Exit(4)
	}
	os.Exit(0)
}

func TestVerifC11Preempt(t *testing.T) {
	if mode := os.Getenv("VERIF_C11_CHILD"); mode != "" {
		secs := 5
		fmt.Sscan(os.Getenv("VERIF_C11_SECS"), &secs)
		stressChild(mode, secs)
		return
	}
	if vkit.Replaying() {
		return
	}
	s := vkit.NewStats("C11", "preempt-stress")
	defer s.Flush()
	secs := vkit.Scale(4, 25)
	run := func(mode string) (int, string) {
		cmd := exec.Command(os.Args[0], "-test.run", "^TestVerifC11Preempt$", "-test.timeout", "300s")
		cmd.Env = append(os.Environ(), "VERIF_C11_CHILD="+mode, fmt.Sprintf("VERIF_C11_SECS=%d", secs), "GOMAXPROCS=8", "GOTRACEBACK=single")
		out, err := cmd.CombinedOutput()
		rc := 0
		if err != nil {
			rc = -1
			if ee, ok := err.(*exec.ExitError); ok {
				rc = ee.ExitCode()
			}
		}
		return rc, string(out)
	}
	head := func(out string) string {
		lines := strings.Split(out, "\n")
		var keep []string
		for _, l := range lines {
			if strings.Contains(l, "logFileLocation") {
				continue
			}
			keep = append(keep, l)
			if len(keep) >= 14 {
				break
			}
		}
		return strings.Join(keep, "\n")
	}
	// clean pairs: must survive
	rc, out := run("clean")
	s.Eval(1)
	switch {
	case rc == 0 && strings.Contains(out, "SURVIVED"):
		s.Class("clean-pairs-survived-the-collection-stress")
		s.NonTrivial("clean")
		var cyc int
		if i := strings.Index(out, "cycles="); i >= 0 {
			fmt.Sscan(out[i+7:], &cyc)
		}
		s.ClassN("collections-during-clean-stress", cyc)
	case rc == 3:
		s.Exclude("clean-stress-pairs-not-admitted-by-the-judge")
		s.Note("preempt-stress: %s", head(out))
	case rc == 4:
		msg := "callers of origin-forwarding callbacks (frameless leaf targets and placeholders) got wrong results while collections ran: " + head(out)
		s.Violation(msg, map[string]string{"mode": "clean"})
		t.Fatal(msg)
	default:
		msg := fmt.Sprintf("callers of origin-forwarding callbacks through placeholders whose frame table agrees with the relocated code died while "+
			"collections preempted them (exit %d):\n%s", rc, head(out))
		s.Violation(msg, map[string]string{"mode": "clean"})
		t.Fatal(msg)
	}
	// framed pair: recorded only (open finding origin-placeholder-frame-metadata)
	rc, out = run("framed")
	s.Eval(1)
	if rc == 0 {
		s.Class("framed-pair-survived-the-collection-stress(open finding did not fire in this run)")
	} else {
		s.Class("framed-pair-died-under-the-collection-stress(open finding, recorded)")
		s.Sample(map[string]string{"mode": "framed", "exit": fmt.Sprint(rc), "output": head(out)})
	}
	// the same stress on a plainly mocked function with a small frame (no placeholder involved): the tail of the entry jump
	// is the second site of the open finding; its window is one instruction, a death is rare. Recorded, thorough tier only.
	if vkit.Tier() == "thorough" {
		rc, out = run("entryjump")
		s.Eval(1)
		if rc == 0 {
			s.Class("plain-mock-of-a-framed-function-survived-the-collection-stress")
		} else {
			s.Class("plain-mock-of-a-framed-function-died-under-the-collection-stress(open finding, recorded)")
			s.Sample(map[string]string{"mode": "entryjump", "exit": fmt.Sprint(rc), "output": head(out)})
		}
	}
	s.Done()
}
