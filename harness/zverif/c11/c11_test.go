//go:build go1.18 && amd64 && linux
// +build go1.18,amd64,linux

// Package c11: independent builders and concurrent callers are race-free and isolated (property C11).
package c11

import (
	"bytes"
	"fmt"
	"os"
	"reflect"
	"runtime"
	"strings"
	"sync"
	"sync/atomic"
	"testing"
	"time"

	mocker "github.com/tencent/goom"
	"github.com/tencent/goom/zverif/corpus"
	refx86 "github.com/tencent/goom/zverif/refx86"
	"github.com/tencent/goom/zverif/reloc"
	"github.com/tencent/goom/zverif/vkit"
	"pgregory.net/rapid"
)

type roundCase struct {
	Mockers int   `json:"mockers"`
	Callers int   `json:"callers"`
	Iters   int   `json:"iterations"`
	Window  int   `json:"window"`
	Yields  []int `json:"yields"`  // per goroutine: yield every n operations (0 = never)
	Export  []int `json:"by_name"` // per mocker: 1 = mocks through Pkg.ExportFunc
}

var img *vkit.TextImage
var placeholderBodies []vkit.Range

func guard(f func()) (pv interface{}) {
	defer func() { pv = recover() }()
	f()
	return nil
}

func hasStackCheck(code []byte) bool {
	for p, n := 0, 0; p < len(code) && n < 6; n++ {
		in, err := refx86.Decode(code[p:], 64)
		if err != nil {
			return false
		}
		if in.Op == refx86.CMP {
			for _, a := range in.Args {
				if m, ok := a.(refx86.Mem); ok && m.Base == refx86.R14 && m.Disp == 0x10 {
					return true
				}
			}
		}
		p += in.Len
	}
	return false
}

func argsFor(fn *corpus.Fn, code int) []reflect.Value {
	a := make([]reflect.Value, fn.Type.NumIn())
	for i := range a {
		a[i] = vkit.Value(fn.Type.In(i), uint64(code+i*3))
	}
	return a
}

func resultsFor(fn *corpus.Fn, code int) []reflect.Value {
	r := make([]reflect.Value, fn.Type.NumOut())
	for i := range r {
		r[i] = vkit.Value(fn.Type.Out(i), uint64(code+i*7))
	}
	return r
}

// steady mocks: installed before the round, hammered by the callers during it
// Frameless origin placeholders for the frameless leaves Z016 and Z007: leaf closures that never move SP, so that the
// runtime's frame table of the placeholder (frame size 0 at every pc) agrees with the relocated code at every pc. The
// generated placeholders of the corpus (corpus.OZ...) have a frame, and goom writes the relocated prologue over a body
// whose frame table describes other code: open finding origin-placeholder-frame-metadata.
var leafOZ016 = func(x int) int {
	x = x*31 + 7
	x ^= x >> 5
	x = x*131 + 11
	x ^= x >> 7
	x = x*137 + 3
	x ^= x >> 9
	x = x*139 + 5
	x ^= x >> 11
	return x
}

var leafOZ007 = func(x float64) float64 {
	x = x*1.5 + 2
	x = x*x + 3
	x = x*2.5 + 4
	x = x*x + 5
	x = x*3.5 + 6
	x = x*x + 7
	return x
}

// frameMismatch judges the code goom wrote into an origin placeholder against the runtime's pc -> frame-size table of
// the placeholder function: before every instruction up to the jump back, the displacement of SP the code has produced
// must be the frame size the table gives for that pc - it is the table the collector, the stack copier and tracebacks
// use when a goroutine is interrupted there (asynchronous preemption). judged is false when the table or the code
// cannot be read.
func frameMismatch(ph uintptr) (mismatch string, judged bool) {
	f, ok := img.FuncAt(ph)
	if !ok || uintptr(f.Entry) != ph {
		return "", false
	}
	tab, ok := img.Im.PCSP(uint64(ph) - img.Slide)
	if !ok {
		return "", false
	}
	walk, ok := reloc.FrameWalk(vkit.Bytes(ph, int(f.End-f.Entry)))
	if !ok {
		return "", false
	}
	for _, w := range walk {
		d, ok := vkit.SPDeltaAt(tab, uint32(w.Off))
		if !ok || int(d) != w.Delta {
			return fmt.Sprintf("at %s+%d (%s) the code has moved SP by %d bytes since entry, the runtime's frame table of that function says %d", f.Name, w.Off, w.Inst, w.Delta, d), true
		}
	}
	return "", true
}

// probeFrameMetadata is the deterministic probe of the open finding origin-placeholder-frame-metadata: the zoo functions in
// order, each mocked with its generated origin placeholder; the first pair whose frame table disagrees is reported.
func probeFrameMetadata(s *vkit.Stats) {
	judgedPairs := 0
	for _, fn := range corpus.Zoo {
		b := mocker.Create()
		pv := guard(func() { b.Func(fn.Fn).Origin(fn.Origin).Apply(fn.MkRepl(&corpus.Rec{})) })
		mm, judged := "", false
		if pv == nil {
			mm, judged = frameMismatch(reflect.ValueOf(fn.Origin).Elem().Pointer())
		}
		b.Reset()
		if !judged {
			continue
		}
		judgedPairs++
		if mm != "" {
			s.KnownFinding("origin-placeholder-frame-metadata", fmt.Sprintf("Func(%s).Origin(&O%s).Apply(cb): %s; a goroutine preempted asynchronously "+
				"at that pc is unwound with the wrong frame size (GC stack scan: 'unexpected return pc' / SIGSEGV)", fn.Name, fn.Name, mm))
			return
		}
	}
	if judgedPairs == 0 {
		s.Note("probe origin-placeholder-frame-metadata: no zoo pair could be judged")
		return
	}
	s.ProbeOK("origin-placeholder-frame-metadata")
}

// surveyEntryJumps records (does not judge) how many corpus functions, once mocked, execute the tail of goom's entry jump
// under a frame table that disagrees with it: the same open finding at its second site (the jump is MOV RDX, imm64;
// JMP [RDX]; functions whose own prologue has pushed something before the second instruction's offset are affected).
func surveyEntryJumps(s *vkit.Stats) {
	for _, fn := range corpus.Fns {
		b := mocker.Create()
		pv := guard(func() { b.Func(fn.Fn).Apply(fn.MkRepl(&corpus.Rec{})) })
		if pv == nil {
			mm, judged := frameMismatch(reflect.ValueOf(fn.Fn).Pointer())
			switch {
			case !judged:
				s.Class("entry-jump-survey/not-judged")
			case mm != "":
				s.Class("entry-jump-survey/frame-table-disagrees-at-the-jump(open finding, recorded)")
			default:
				s.Class("entry-jump-survey/frame-table-agrees")
			}
		}
		b.Reset()
	}
}

type steady struct {
	name  string
	check func(i int) error // one call + oracle; must not write shared state
}

// trimStacks keeps the goroutines that are inside goom
func trimStacks(all string) string {
	var keep []string
	for _, g := range strings.Split(all, "\n\n") {
		if strings.Contains(g, "tencent/goom/internal") || strings.Contains(g, "tencent/goom.(") {
			lines := strings.Split(g, "\n")
			if len(lines) > 14 {
				lines = lines[:14]
			}
			keep = append(keep, strings.Join(lines, "\n"))
		}
		if len(keep) >= 4 {
			break
		}
	}
	return strings.Join(keep, "\n\n")
}

// zoo functions whose origin-apply goom refuses
var refusers []*corpus.Fn

func runRound(ci interface{}, s *vkit.Stats) error {
	c := ci.(*roundCase)
	sb := mocker.Create()
	var steadies []steady
	// (1) Return-stubbed corpus functions (pure: the stub is goom's own code)
	base := (c.Window * 16) % (len(corpus.Fns) - 40)
	for j := 0; j < 3; j++ {
		fn := corpus.Fns[base+32+j]
		if fn.Type.NumOut() == 0 {
			continue
		}
		res := resultsFor(fn, 40+j)
		vals := make([]interface{}, len(res))
		for i := range vals {
			vals[i] = res[i].Interface()
		}
		if pv := guard(func() { sb.Func(fn.Fn).Return(vals...) }); pv != nil {
			return fmt.Errorf("steady stub on %s panicked: %v", fn.Name, pv)
		}
		args := argsFor(fn, 5+j)
		steadies = append(steadies, steady{fn.Name, func(i int) error {
			got := fn.Call(corpus.FormDirect, args)
			for k := range got {
				if !vkit.Same(got[k], res[k]) {
					return fmt.Errorf("steady stub %s: caller got %s, stubbed %s", fn.Name, vkit.Describe(got[k]), vkit.Describe(res[k]))
				}
			}
			return nil
		}})
	}
	// (2) callbacks that call the origin placeholder, on frameless leaves (no stack-check prologue: open finding C03 cannot fire)
	frameless := func(f interface{}) bool {
		e := reflect.ValueOf(f).Pointer()
		fi, ok := img.FuncAt(e)
		return ok && !hasStackCheck(vkit.Bytes(e, int(uintptr(fi.End)-e)))
	}
	// The placeholder is a frameless leaf too, and the pair is admitted only if the frame table of the placeholder agrees
	// with the relocated code (otherwise: open finding origin-placeholder-frame-metadata, excluded and counted).
	var obs []*mocker.Builder
	newOB := func() *mocker.Builder {
		b := mocker.Create()
		obs = append(obs, b)
		return b
	}
	resetOBs := func() {
		for _, b := range obs {
			b.Reset()
		}
	}
	defer resetOBs()
	ob := newOB()
	originOK := func(ph interface{}) bool {
		mm, judged := frameMismatch(reflect.ValueOf(ph).Pointer())
		if !judged || mm != "" {
			s.Exclude("steady-origin-callers-on-a-placeholder-whose-frame-table-disagrees(known finding)")
			return false
		}
		return true
	}
	if frameless(corpus.Z016) {
		if pv := guard(func() {
			ob.Func(corpus.Z016).Origin(&leafOZ016).Apply(func(x int) int { return leafOZ016(x) + 1000 })
		}); pv != nil {
			return fmt.Errorf("steady origin mock on Z016 panicked: %v", pv)
		}
		if !originOK(leafOZ016) {
			ob.Reset()
		} else {
			s.Class("steady-origin-callers/Z016")
			steadies = append(steadies, steady{"Z016+origin", func(i int) error {
				if got := corpus.Z016(i); got != i+1000 {
					return fmt.Errorf("steady Z016 (callback = origin+1000): Z016(%d) = %d", i, got)
				}
				return nil
			}})
		}
	}
	// (3) a conditional stub whose callers pass different arguments: each caller must get the result of its own condition
	if pv := guard(func() {
		sb.Func(corpus.Z003).Return(-1).When(1).Return(100).When(2).Return(200).When(3).Return(300).When(4).Return(400)
	}); pv != nil {
		return fmt.Errorf("steady conditional stub on Z003 panicked: %v", pv)
	}
	steadies = append(steadies, steady{"Z003 when", func(i int) error {
		k := i%5 + 1
		want := k * 100
		if k == 5 {
			want = -1
		}
		if got := corpus.Z003(k); got != want {
			return fmt.Errorf("steady Z003 (When(k).Return(100k), default -1): Z003(%d) = %d, want %d", k, got, want)
		}
		return nil
	}})
	if frameless(corpus.Z007) {
		ob7 := newOB()
		if pv := guard(func() {
			ob7.Func(corpus.Z007).Origin(&leafOZ007).Apply(func(x float64) float64 { return leafOZ007(x) + 0.5 })
		}); pv != nil { // (goom may refuse a prologue; refusals are property C03's business)
		} else if !originOK(leafOZ007) {
			ob7.Reset()
		} else {
			s.Class("steady-origin-callers/Z007")
			steadies = append(steadies, steady{"Z007+origin", func(i int) error {
				x := float64(i)
				if got := corpus.Z007(x); got != x*3.25+1.5+0.5 {
					return fmt.Errorf("steady Z007 (callback = origin+0.5): Z007(%v) = %v", x, got)
				}
				return nil
			}})
		}
	}
	defer sb.Reset()

	var stop int32
	var ready, goFlag int32
	total := c.Mockers + c.Callers
	errs := make([]error, total)
	var wg sync.WaitGroup
	var steadyCalls, mockOps, refusedRestubs, tinyOps, genericOps int64
	yieldOf := func(g int) int {
		if len(c.Yields) == 0 {
			return 0
		}
		return c.Yields[g%len(c.Yields)]
	}
	for g := 0; g < c.Mockers; g++ {
		wg.Add(1)
		go func(g int) {
			defer wg.Done()
			defer func() {
				if r := recover(); r != nil {
					errs[g] = fmt.Errorf("mocker %d panicked: %v", g, r)
				}
			}()
			// this goroutine owns two corpus functions next to each other and next to the other mockers' targets
			own := []*corpus.Fn{corpus.Fns[base+2*g], corpus.Fns[base+2*g+1]}
			byName := len(c.Export) > 0 && c.Export[g%len(c.Export)] == 1
			atomic.AddInt32(&ready, 1)
			for atomic.LoadInt32(&goFlag) == 0 {
			}
			for it := 0; it < c.Iters; it++ {
				b := mocker.Create()
				for _, fn := range own {
					rec := &corpus.Rec{}
					if byName {
						b.Pkg(corpus.PkgPath).ExportFunc(fn.Name).Apply(fn.MkRepl(rec))
					} else {
						b.Func(fn.Fn).Apply(fn.MkRepl(rec))
					}
					rec.Res = resultsFor(fn, it+g)
					before := corpus.OrigRan[fn.ID]
					got := fn.Call(corpus.FormDirect, argsFor(fn, it))
					if rec.Calls != 1 || corpus.OrigRan[fn.ID] != before {
						errs[g] = fmt.Errorf("mocker %d iteration %d: after its own Apply, %s ran the replacement %d times and the original %d times", g, it, fn.Name, rec.Calls, corpus.OrigRan[fn.ID]-before)
						return
					}
					for k := range got {
						if !vkit.Same(got[k], rec.Res[k]) {
							errs[g] = fmt.Errorf("mocker %d: %s delivered a wrong result under its own mock", g, fn.Name)
							return
						}
					}
					if !byName && fn.Type.NumOut() > 0 {
						// re-stub
						res := resultsFor(fn, it+g+9)
						vals := make([]interface{}, len(res))
						for i := range vals {
							vals[i] = res[i].Interface()
						}
						b.Func(fn.Fn).Return(vals...)
						got = fn.Call(corpus.FormDirect, argsFor(fn, it))
						for k := range got {
							if !vkit.Same(got[k], res[k]) {
								errs[g] = fmt.Errorf("mocker %d: %s re-stubbed with Return, caller got something else", g, fn.Name)
								return
							}
						}
					}
					atomic.AddInt64(&mockOps, 1)
					if y := yieldOf(g); y > 0 && it%y == 0 {
						runtime.Gosched()
					}
				}
				if g == 0 {
					// a method of an instantiated generic type (the scan for its shape function reads code outside the patch lock)
					gi := corpus.GenInsts[it%len(corpus.GenInsts)]
					if pv := guard(func() { b.Struct(gi.StructArg).Method("Count").Return(4242 + it) }); pv != nil {
						errs[g] = fmt.Errorf("mocker %d: stubbing %s.Count panicked: %v", g, gi.Name, pv)
						return
					}
					if got := gi.Count(); got != 4242+it {
						errs[g] = fmt.Errorf("mocker %d iteration %d: after its own Return, %s.Count() = %d, want %d", g, it, gi.Name, got, 4242+it)
						return
					}
					atomic.AddInt64(&genericOps, 1)
				}
				// tiny adjacent functions: neighbours (two per 64-byte line) belong to different mocker goroutines
				for ti := g; ti < len(corpus.Tiny); ti += c.Mockers {
					want := 7000 + 100*g + it
					if pv := guard(func() { b.Func(corpus.Tiny[ti]).Return(want) }); pv != nil {
						errs[g] = fmt.Errorf("mocker %d: stubbing Tiny%02d panicked: %v", g, ti, pv)
						return
					}
					if got := corpus.Tiny[ti](it); got != want {
						errs[g] = fmt.Errorf("mocker %d iteration %d: after its own Return, Tiny%02d(%d) = %d, want %d (a neighbour's apply or reset touched it?)", g, it, ti, it, got, want)
						return
					}
					atomic.AddInt64(&tinyOps, 1)
				}
				if g < len(refusers) && it%3 == 0 {
					// a re-stub that goom refuses (an origin placeholder on a prologue it cannot relocate) over this goroutine's own live mock
					z := refusers[g]
					zrec := &corpus.Rec{Res: resultsFor(z, it)}
					if pv := guard(func() { b.Func(z.Fn).Apply(z.MkRepl(zrec)) }); pv != nil {
						errs[g] = fmt.Errorf("mocker %d: plain Apply on %s panicked: %v", g, z.Name, pv)
						return
					}
					if pv := guard(func() { b.Func(z.Fn).Origin(z.Origin).Apply(z.MkRepl(zrec)) }); pv != nil {
						atomic.AddInt64(&refusedRestubs, 1)
					}
				}
				b.Reset()
				if g < len(refusers) && it%3 == 0 {
					z := refusers[g]
					e := reflect.ValueOf(z.Fn).Pointer()
					if live := vkit.Bytes(e, 13); !bytes.Equal(live, img.Pristine[e-img.Addr:e-img.Addr+13]) {
						errs[g] = fmt.Errorf("mocker %d iteration %d: after a refused re-stub and its own Reset, the entry of %s reads % x (not restored)", g, it, z.Name, live)
						return
					}
				}
				for ti := g; ti < len(corpus.Tiny); ti += c.Mockers {
					if got := corpus.Tiny[ti](it); got != it+100+ti {
						errs[g] = fmt.Errorf("mocker %d iteration %d: after its own Reset, Tiny%02d(%d) = %d, want the original %d", g, it, ti, it, got, it+100+ti)
						return
					}
				}
				for _, fn := range own {
					before := corpus.OrigRan[fn.ID]
					fn.Call(corpus.FormDirect, argsFor(fn, it))
					if corpus.OrigRan[fn.ID]-before != 1 {
						errs[g] = fmt.Errorf("mocker %d iteration %d: after its own Reset, %s does not run its original body (another builder's apply/reset touched it?)", g, it, fn.Name)
						return
					}
				}
			}
		}(g)
	}
	for g := c.Mockers; g < total; g++ {
		wg.Add(1)
		go func(g int) {
			defer wg.Done()
			defer func() {
				if r := recover(); r != nil {
					errs[g] = fmt.Errorf("caller %d panicked: %v", g, r)
				}
			}()
			atomic.AddInt32(&ready, 1)
			for atomic.LoadInt32(&goFlag) == 0 {
			}
			for i := 0; atomic.LoadInt32(&stop) == 0 || i < 50; i++ {
				st := steadies[(i+g)%len(steadies)]
				if err := st.check(i % 100); err != nil {
					errs[g] = fmt.Errorf("caller %d call %d: %v", g, i, err)
					return
				}
				atomic.AddInt64(&steadyCalls, 1)
				if y := yieldOf(g); y > 0 && i%y == 0 {
					runtime.Gosched()
				}
				if i > 2000000 {
					break
				}
			}
		}(g)
	}
	for atomic.LoadInt32(&ready) != int32(total) {
		runtime.Gosched()
	}
	atomic.StoreInt32(&goFlag, 1)
	// callers run until all mockers are done
	done := make(chan struct{})
	go func() { wg.Wait(); close(done) }()
	mdone := make(chan struct{})
	go func() {
		for {
			if atomic.LoadInt64(&mockOps) >= int64(c.Mockers*c.Iters*2) {
				break
			}
			failed := false
			for _, e := range errs {
				if e != nil {
					failed = true
				}
			}
			if failed {
				break
			}
			runtime.Gosched()
		}
		atomic.StoreInt32(&stop, 1)
		close(mdone)
	}()
	// a round takes well under a second; one that has not finished after 90 s is stuck (a lock that is never released): that is a
	// liveness bound two orders of magnitude above the normal duration, not a performance expectation. The stuck goroutines
	// cannot be recovered, so the violation is recorded and the process ends.
	finished := make(chan struct{})
	go func() { <-mdone; <-done; close(finished) }()
	select {
	case <-finished:
	case <-time.After(90 * time.Second):
		buf := make([]byte, 1<<16)
		buf = buf[:runtime.Stack(buf, true)]
		msg := fmt.Sprintf("the round did not finish within 90 s: mocker and caller goroutines are blocked (deadlock); %d mock operations and %d steady calls were completed. Goroutines:\n%s", atomic.LoadInt64(&mockOps), atomic.LoadInt64(&steadyCalls), trimStacks(string(buf)))
		s.Violation(msg, c)
		s.Flush()
		os.Exit(1)
	}
	for _, e := range errs {
		if e != nil {
			return e
		}
	}
	// quiescence: everything restored
	sb.Reset()
	resetOBs()
	if bad := vkit.Outside(img.Diff(), placeholderBodies); len(bad) > 0 {
		return fmt.Errorf("at quiescence (all builders reset) the executable image differs from pristine: %s", img.Describe(bad))
	}
	if w := img.WritableTextPages(); len(w) > 0 {
		return fmt.Errorf("at quiescence a text page is %s", w[0].Perm)
	}
	s.ClassN("refused-restubs-over-a-live-mock", int(refusedRestubs))
	s.ClassN("stubs-on-tiny-neighbours-sharing-a-64-byte-line", int(tinyOps))
	s.ClassN("stubs-on-generic-methods-while-others-patch", int(genericOps))
	s.ClassN("steady-calls", int(steadyCalls))
	s.ClassN("mocker-apply-restub-reset-cycles", int(mockOps))
	s.Class("rounds")
	s.NonTrivial(fmt.Sprint(*c))
	s.Sample(c)
	return nil
}

func TestVerifC11(t *testing.T) {
	if f, err := os.OpenFile(os.DevNull, os.O_WRONLY, 0); err == nil && os.Getenv("VERIF_VERBOSE") == "" {
		os.Stdout = f
	}
	img = vkit.SnapshotText()
	for _, fn := range corpus.Zoo {
		if f, ok := img.FuncAt(reflect.ValueOf(fn.Origin).Elem().Pointer()); ok {
			placeholderBodies = append(placeholderBodies, vkit.Range{Lo: uintptr(f.Entry), Hi: uintptr(f.End)})
		}
	}
	for _, ph := range []interface{}{leafOZ016, leafOZ007} {
		if f, ok := img.FuncAt(reflect.ValueOf(ph).Pointer()); ok {
			placeholderBodies = append(placeholderBodies, vkit.Range{Lo: uintptr(f.Entry), Hi: uintptr(f.End)})
		}
	}
	for _, fn := range corpus.Zoo {
		if fn.Name == "Z016" || fn.Name == "Z007" || fn.Name == "Z003" {
			continue
		}
		b := mocker.Create()
		if pv := guard(func() { b.Func(fn.Fn).Origin(fn.Origin).Apply(fn.MkRepl(&corpus.Rec{})) }); pv != nil {
			refusers = append(refusers, fn)
		}
		b.Reset()
	}
	p := &vkit.Prop{ID: "C11", Unit: "rounds", Journal: true, New: func() interface{} { return &roundCase{} },
		Gen: func(rt *rapid.T) interface{} {
			return &roundCase{Mockers: rapid.IntRange(2, 8).Draw(rt, "mockers"), Callers: rapid.IntRange(2, 8).Draw(rt, "callers"),
				Iters: rapid.IntRange(3, 25).Draw(rt, "iters"), Window: rapid.IntRange(0, 4).Draw(rt, "window"),
				Yields: rapid.SliceOfN(rapid.IntRange(0, 7), 1, 8).Draw(rt, "yields"),
				Export: rapid.SliceOfN(rapid.IntRange(0, 1), 1, 4).Draw(rt, "export")}
		},
		Run: runRound}
	s := p.Main(t, vkit.Scale(40, 600))
	if !vkit.Replaying() {
		probeFrameMetadata(s)
		surveyEntryJumps(s)
		s.Done()
	}
}
