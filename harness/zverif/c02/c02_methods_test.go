//go:build go1.18 && amd64
// +build go1.18,amd64

package c02

import (
	"bytes"
	"fmt"
	"os"
	"reflect"
	"strings"
	"testing"

	mocker "github.com/tencent/goom"
	"github.com/tencent/goom/zverif/corpus"
	"github.com/tencent/goom/zverif/vkit"
	"pgregory.net/rapid"
)

// ---- methods: the same byte invariant over histories on the methods of one struct type ----

type methCase struct {
	Type int       `json:"type"`
	Ops  []vkit.Op `json:"ops"` // K: apply | ret | cancel | reset | resetkeep ; I: method, way of addressing, value code
}

// methodEntry finds the entry address of a method by its symbol name in the image
var methodEntries = map[int]uintptr{}

func methodEntry(t *corpus.TypeInfo, m *corpus.Method) (uintptr, bool) {
	if e, ok := methodEntries[m.Tag]; ok {
		return e, e != 0
	}
	recv := t.Name
	if m.Ptr {
		recv = "(*" + t.Name + ")"
	}
	want := corpus.PkgPath + "." + recv + "." + m.Name
	for _, f := range img.Im.Funcs {
		if f.Name == want {
			methodEntries[m.Tag] = uintptr(f.Entry + img.Slide)
			return methodEntries[m.Tag], true
		}
	}
	methodEntries[m.Tag] = 0
	return 0, false
}

type mmock struct {
	kind string // repl | ret
	rec  *corpus.Rec
	ret  []reflect.Value
}

func runMeth(ci interface{}, s *vkit.Stats) error {
	c := ci.(*methCase)
	t := corpus.Types[c.Type%len(corpus.Types)]
	b := mocker.Create()
	defer func() { _ = guard(func() { b.Reset() }) }()
	live := map[int]*mmock{}
	// one way of addressing per method and history (two handle kinds on one method are two independent mockers)
	howOf := map[int]int{}
	kept := map[int]mocker.ExportedMocker{}
	restores := 0
	handle := func(m *corpus.Method, drawn int64, useKept bool) (mocker.ExportedMocker, mocker.Mocker) {
		if h, ok := kept[m.Tag]; ok && useKept {
			s.Class("method-instruction-through-a-kept-handle")
			return h, h
		}
		if _, ok := howOf[m.Tag]; !ok {
			howOf[m.Tag] = int(drawn & 1)
		}
		arg := t.ValArg
		star := ""
		if m.Ptr {
			arg, star = t.PtrArg, "*"
		}
		switch {
		case !t.Exported || howOf[m.Tag] == 1:
			um := b.Pkg(corpus.PkgPath).ExportStruct(star + t.Name).Method(m.Name)
			return um.As(m.As), um
		case m.Exported:
			em := b.Struct(arg).Method(m.Name)
			kept[m.Tag] = em
			return em, em
		default:
			um := b.Struct(arg).ExportMethod(m.Name)
			return um.As(m.As), um
		}
	}
	check := func(step int, what string) error {
		var allowed []vkit.Range
		for _, m := range t.Methods {
			if live[m.Tag] != nil {
				if e, ok := methodEntry(t, m); ok {
					allowed = append(allowed, vkit.Range{Lo: e, Hi: e + 13})
				}
			}
		}
		if bad := vkit.Outside(img.Diff(), allowed); len(bad) > 0 {
			return fmt.Errorf("step %d (%s): bytes of the executable image differ from the pristine image outside the entry jumps of the currently mocked methods of %s: %s", step, what, t.Name, img.Describe(bad))
		}
		for _, m := range t.Methods {
			e, ok := methodEntry(t, m)
			if !ok {
				continue
			}
			off := int(e - img.Addr)
			pristine := bytes.Equal(img.Live[off:off+13], img.Pristine[off:off+13])
			mm := live[m.Tag]
			where := fmt.Sprintf("step %d (%s): %s.%s", step, what, t.Name, m.Name)
			if mm == nil && !pristine {
				return fmt.Errorf("%s: not mocked, but its entry bytes are % x (pristine % x)", where, img.Live[off:off+13], img.Pristine[off:off+13])
			}
			if mm != nil && !isJump(img.Live[off:off+13]) {
				return fmt.Errorf("%s: mocked, but its entry bytes % x are not the entry jump", where, img.Live[off:off+13])
			}
			n := m.FuncType.NumIn() - 1
			args := make([]reflect.Value, n)
			for i := range args {
				args[i] = vkit.Value(m.FuncType.In(i+1), uint64(step+i))
			}
			before := *m.Ran
			calls := 0
			if mm != nil && mm.rec != nil {
				calls = mm.rec.Calls
				mm.rec.Res = make([]reflect.Value, m.FuncType.NumOut())
				for i := range mm.rec.Res {
					mm.rec.Res[i] = vkit.Value(m.FuncType.Out(i), uint64(step*3+i+1))
				}
			}
			var got []reflect.Value
			if pv := guard(func() { got = m.Call(step%corpus.NumInstances, args) }); pv != nil {
				return fmt.Errorf("%s: call panicked: %v", where, pv)
			}
			ran := *m.Ran - before
			switch {
			case mm == nil:
				if ran != 1 {
					return fmt.Errorf("%s: not mocked, but the original body ran %d times", where, ran)
				}
			case mm.kind == "repl":
				if ran != 0 || mm.rec.Calls-calls != 1 {
					return fmt.Errorf("%s: mocked by a callback: the original ran %d times, the callback %d times", where, ran, mm.rec.Calls-calls)
				}
			default:
				if ran != 0 {
					return fmt.Errorf("%s: stubbed, but the original body ran", where)
				}
				for j := range got {
					if !vkit.Same(got[j], mm.ret[j]) {
						return fmt.Errorf("%s: stub result %d: want %s got %s", where, j, vkit.Describe(mm.ret[j]), vkit.Describe(got[j]))
					}
				}
			}
		}
		return nil
	}
	var fp []string
	for step, op := range c.Ops {
		for len(op.I) < 4 {
			op.I = append(op.I, 0)
		}
		m := t.Methods[vkit.Pick(op.I[0], len(t.Methods))]
		useKept := vkit.Pick(op.I[3], 3) == 0
		what := fmt.Sprintf("%s %s.%s", op.K, t.Name, m.Name)
		var pv interface{}
		switch op.K {
		case "apply":
			rec := &corpus.Rec{}
			pv = guard(func() { h, _ := handle(m, op.I[1], useKept); h.Apply(m.MkRepl(rec)) })
			live[m.Tag] = &mmock{kind: "repl", rec: rec}
		case "ret":
			if old := live[m.Tag]; old != nil && old.kind == "ret" {
				continue // a second Return extends the sequence (C05)
			}
			res := make([]reflect.Value, m.FuncType.NumOut())
			vals := make([]interface{}, len(res))
			for i := range res {
				res[i] = vkit.Value(m.FuncType.Out(i), uint64(op.I[2])+uint64(i)*7)
				if !(res[i].Kind() == reflect.Interface && res[i].IsNil()) {
					vals[i] = res[i].Interface()
				}
			}
			pv = guard(func() { h, _ := handle(m, op.I[1], useKept); h.Return(vals...) })
			live[m.Tag] = &mmock{kind: "ret", ret: res}
		case "cancel":
			pv = guard(func() { _, mk := handle(m, op.I[1], useKept); mk.Cancel() })
			if live[m.Tag] != nil {
				restores++
			}
			delete(live, m.Tag)
		case "reset", "resetkeep":
			pv = guard(func() { b.Reset() })
			restores += len(live)
			live = map[int]*mmock{}
			if op.K == "reset" {
				b = mocker.Create()
				kept = map[int]mocker.ExportedMocker{}
				howOf = map[int]int{}
			}
		}
		if pv != nil {
			return fmt.Errorf("step %d (%s): panicked: %v", step, what, pv)
		}
		fp = append(fp, fmt.Sprintf("%s%d", op.K[:3], m.Tag%100))
		if err := check(step, what); err != nil {
			return err
		}
		n := 0
		for _, mm := range t.Methods {
			if live[mm.Tag] != nil && !mm.Exported {
				n++
			}
		}
		if n >= 2 {
			s.Class("two-unexported-methods-of-one-type-mocked")
		}
	}
	if pv := guard(func() { b.Reset() }); pv != nil {
		return fmt.Errorf("final Reset panicked: %v", pv)
	}
	restores += len(live)
	live = map[int]*mmock{}
	if err := check(len(c.Ops), "final Reset"); err != nil {
		return err
	}
	if restores >= 2 {
		s.NonTrivial(t.Name + ":" + strings.Join(fp, ","))
		s.Sample(c)
	}
	return nil
}

var methOpGen = vkit.OpGen([]string{"apply", "ret", "cancel", "reset", "resetkeep"}, []int{6, 4, 3, 1, 1}, 4)

func TestVerifC02Methods(t *testing.T) {
	if f, err := os.OpenFile(os.DevNull, os.O_WRONLY, 0); err == nil && os.Getenv("VERIF_VERBOSE") == "" {
		os.Stdout = f
	}
	if img == nil {
		img = vkit.SnapshotText()
	}
	p := &vkit.Prop{ID: "C02", Unit: "method-histories", Journal: true, New: func() interface{} { return &methCase{} },
		Gen: func(rt *rapid.T) interface{} {
			return &methCase{Type: rapid.IntRange(0, len(corpus.Types)-1).Draw(rt, "type"), Ops: rapid.SliceOfN(methOpGen, 2, 18).Draw(rt, "ops")}
		},
		Run: runMeth}
	s := p.Main(t, vkit.Scale(800, 6000))
	if !vkit.Replaying() {
		s.Done()
	}
}

// ---- bound method values handed to Func (targets resolved through the "-fm" wrapper's name) ----

type mvT struct{ n int }

var mvRan [4]int64

//go:noinline
func (m *mvT) Err(a string) string { mvRan[0]++; return fmt.Sprint("err:", a, m.n) }

//go:noinline
func (m *mvT) Errf(a string) string { mvRan[1]++; return fmt.Sprint("errf:", a, m.n) }

//go:noinline
func (m *mvT) For(a string) string { mvRan[2]++; return fmt.Sprint("for:", a, m.n) }

//go:noinline
func (m *mvT) Form(a string) string { mvRan[3]++; return fmt.Sprint("form:", a, m.n) }

type mvCase struct {
	Ops []vkit.Op `json:"ops"` // K: ret | reset ; I: method
}

func runMethodValues(ci interface{}, s *vkit.Stats) error {
	c := ci.(*mvCase)
	obj := &mvT{n: 3}
	names := []string{"Err", "Errf", "For", "Form"}
	vals := []func(string) string{obj.Err, obj.Errf, obj.For, obj.Form}
	entries := make([]uintptr, len(names))
	for i, n := range names {
		want := "github.com/tencent/goom/zverif/c02.(*mvT)." + n
		for _, f := range img.Im.Funcs {
			if f.Name == want {
				entries[i] = uintptr(f.Entry + img.Slide)
			}
		}
		if entries[i] == 0 {
			return nil
		}
	}
	b := mocker.Create()
	defer func() { _ = guard(func() { b.Reset() }) }()
	live := map[int]string{}
	check := func(step int, what string) error {
		var allowed []vkit.Range
		for i := range names {
			if _, ok := live[i]; ok {
				allowed = append(allowed, vkit.Range{Lo: entries[i], Hi: entries[i] + 13})
			}
		}
		if bad := vkit.Outside(img.Diff(), allowed); len(bad) > 0 {
			return fmt.Errorf("step %d (%s): the image differs from pristine outside the entry jumps of the mocked methods: %s", step, what, img.Describe(bad))
		}
		for i, n := range names {
			before := mvRan[i]
			var got string
			if pv := guard(func() { got = vals[i]("a") }); pv != nil {
				return fmt.Errorf("step %d (%s): calling %s panicked: %v", step, what, n, pv)
			}
			if want, ok := live[i]; ok {
				if got != want || mvRan[i] != before {
					return fmt.Errorf("step %d (%s): the method value of %s was stubbed to return %q; the call returned %q (original ran %d times)", step, what, n, want, got, mvRan[i]-before)
				}
			} else if mvRan[i]-before != 1 {
				return fmt.Errorf("step %d (%s): %s is not mocked but its original body ran %d times (returned %q)", step, what, n, mvRan[i]-before, got)
			}
		}
		return nil
	}
	for step, op := range c.Ops {
		for len(op.I) < 1 {
			op.I = append(op.I, 0)
		}
		i := vkit.Pick(op.I[0], len(names))
		what := op.K + " " + names[i]
		var pv interface{}
		switch op.K {
		case "ret":
			if _, ok := live[i]; ok {
				continue
			}
			want := fmt.Sprintf("stub-%d-%s", step, names[i])
			pv = guard(func() { b.Func(vals[i]).Return(want) })
			live[i] = want
		default:
			pv = guard(func() { b.Reset() })
			live = map[int]string{}
		}
		if pv != nil {
			return fmt.Errorf("step %d (%s): panicked: %v", step, what, pv)
		}
		if err := check(step, what); err != nil {
			return err
		}
	}
	_ = guard(func() { b.Reset() })
	live = map[int]string{}
	if err := check(len(c.Ops), "final Reset"); err != nil {
		return err
	}
	s.Class("method-value-histories")
	s.NonTrivial(fmt.Sprint(c.Ops))
	return nil
}

func TestVerifC02MethodValues(t *testing.T) {
	if f, err := os.OpenFile(os.DevNull, os.O_WRONLY, 0); err == nil && os.Getenv("VERIF_VERBOSE") == "" {
		os.Stdout = f
	}
	if img == nil {
		img = vkit.SnapshotText()
	}
	gen := vkit.OpGen([]string{"ret", "reset"}, []int{4, 1}, 1)
	p := &vkit.Prop{ID: "C02", Unit: "method-values", Journal: true, New: func() interface{} { return &mvCase{} },
		Gen: func(rt *rapid.T) interface{} { return &mvCase{Ops: rapid.SliceOfN(gen, 1, 8).Draw(rt, "ops")} },
		Run: runMethodValues}
	s := p.Main(t, vkit.Scale(200, 1500))
	if !vkit.Replaying() {
		s.Done()
	}
}
