//go:build go1.18 && amd64 && linux
// +build go1.18,amd64,linux

// Package c02: Reset/Cancel restores original behaviour and the exact original code bytes (property C02).
package c02

import (
	"bytes"
	"fmt"
	"os"
	"reflect"
	"strings"
	"testing"

	mocker "github.com/tencent/goom"
	"github.com/tencent/goom/zverif/corpus"
	"github.com/tencent/goom/zverif/vkit"
	"pgregory.net/rapid"
)

type histCase struct {
	Ops []vkit.Op `json:"ops"`
}

const (
	nTargets  = 5
	nBuilders = 3
)

type owner struct {
	b, h int // builder, handle kind (0 Func, 1 ExportFunc)
}

type mock struct {
	kind string // repl | ret | origin
	rec  *corpus.Rec
	ret  []reflect.Value
}

type tstate struct {
	owners map[owner]*mock // live (not cancelled) mockers
	last   *mock           // the mock applied most recently
	shared bool            // more than one owner has been live since the target was last pristine
	ambig  bool
}

var img *vkit.TextImage
var entries []uintptr       // entry address of every corpus function
var placeholders [][2]uintptr // body extent of every origin placeholder

// placeholder bodies stay rewritten after a reset (the statement allows it), for the rest of the process
var usedPlaceholder = map[int]bool{}

func guard(f func()) (pv interface{}) {
	defer func() { pv = recover() }()
	f()
	return nil
}

func argsFor(fn *corpus.Fn, code int64) []reflect.Value {
	a := make([]reflect.Value, fn.Type.NumIn())
	for i := range a {
		a[i] = vkit.Value(fn.Type.In(i), uint64(code)+uint64(i)*3)
	}
	return a
}

func resultsFor(fn *corpus.Fn, code int64) []reflect.Value {
	r := make([]reflect.Value, fn.Type.NumOut())
	for i := range r {
		r[i] = vkit.Value(fn.Type.Out(i), uint64(code)+uint64(i)*7)
	}
	return r
}

func isJump(b []byte) bool { return len(b) >= 13 && b[0] == 0x90 && b[1] == 0x48 && b[2] == 0xBA && b[11] == 0xFF && b[12] == 0x22 }

func runHist(ci interface{}, s *vkit.Stats) error {
	c := ci.(*histCase)
	if len(c.Ops) == 0 {
		return nil
	}
	for i := range c.Ops {
		for len(c.Ops[i].I) < 6 {
			c.Ops[i].I = append(c.Ops[i].I, 0)
		}
	}
	win := vkit.Pick(c.Ops[0].I[5], len(corpus.Fns)/nTargets) * nTargets
	bs := make([]*mocker.Builder, nBuilders)
	for i := range bs {
		bs[i] = mocker.Create()
	}
	defer func() {
		for _, b := range bs {
			_ = guard(func() { b.Reset() })
		}
	}()
	st := make([]*tstate, nTargets)
	for i := range st {
		st[i] = &tstate{owners: map[owner]*mock{}}
	}
	var fp []string
	usedHere := false
	restores, reapply, multi := 0, 0, 0

	// a user may look the mocker up afresh for every instruction or keep the object returned earlier and go on
	// using it, also after it was cancelled: both must work
	type keptKey struct {
		b, h int
		fn   *corpus.Fn
	}
	type keptHandles struct {
		mk mocker.Mocker
		em mocker.ExportedMocker
	}
	kept := map[keptKey]keptHandles{}
	useKept := false
	curB := 0
	handle := func(b *mocker.Builder, fn *corpus.Fn, h int) (mocker.Mocker, mocker.ExportedMocker) {
		key := keptKey{curB, h, fn}
		if kh, ok := kept[key]; ok && useKept {
			s.Class("instruction-through-a-kept-handle")
			return kh.mk, kh.em
		}
		if h == 0 {
			m := b.Func(fn.Fn)
			kept[key] = keptHandles{m, m}
			return m, m
		}
		um := b.Pkg(corpus.PkgPath).ExportFunc(fn.Name)
		kept[key] = keptHandles{um, nil}
		return um, nil
	}
	// after every step: the image invariant, and behaviour of every target of the window
	invariant := func(step int, what string) error {
		var allowed []vkit.Range
		for k := range usedPlaceholder {
			allowed = append(allowed, vkit.Range{Lo: placeholders[k][0], Hi: placeholders[k][1]})
		}
		for i, t := range st {
			if len(t.owners) > 0 || t.ambig {
				e := entries[win+i]
				allowed = append(allowed, vkit.Range{Lo: e, Hi: e + 13})
			}
		}
		if bad := vkit.Outside(img.Diff(), allowed); len(bad) > 0 {
			return fmt.Errorf("step %d (%s): bytes of the executable image differ from the pristine image outside the entry jumps of currently mocked functions and used placeholder bodies: %s", step, what, img.Describe(bad))
		}
		for i, t := range st {
			k := win + i
			fn := corpus.Fns[k]
			e := entries[k]
			off := int(e - img.Addr)
			live := img.Live[off : off+13]
			pristine := bytes.Equal(live, img.Pristine[off:off+13])
			where := fmt.Sprintf("step %d (%s): %s", step, what, fn.Name)
			switch {
			case len(t.owners) == 0 && !t.ambig:
				if !pristine {
					return fmt.Errorf("%s: no live mock, but its entry bytes are % x (pristine % x)", where, live, img.Pristine[off:off+13])
				}
			case !t.ambig:
				if !isJump(live) {
					return fmt.Errorf("%s: mocked, but its entry bytes % x are not the entry jump", where, live)
				}
			}
			// behaviour
			args := argsFor(fn, int64(step)+int64(i))
			before := corpus.OrigRan[k]
			staticBefore := corpus.StaticRan[fn.ID]
			m := t.last
			if m != nil && m.rec != nil {
				m.rec.Res = resultsFor(fn, int64(step)*5+3)
				m.rec.Args = nil
			}
			var got []reflect.Value
			var pv interface{}
			vkit.WithHeadroom(func() { pv = guard(func() { got = fn.Call(corpus.FormDirect, args) }) })
			if pv != nil {
				return fmt.Errorf("%s: call panicked: %v", where, pv)
			}
			ran := corpus.OrigRan[k] - before
			if pristine {
				if ran != 1 {
					return fmt.Errorf("%s: entry bytes are pristine but the original body ran %d times", where, ran)
				}
				continue
			}
			if t.ambig {
				continue // some registered replacement answered; which one is not determined by the statement
			}
			switch m.kind {
			case "static":
				if ran != 0 || corpus.StaticRan[fn.ID]-staticBefore != 1 {
					return fmt.Errorf("%s: mocked by its static replacement: original ran %d times, the replacement %d times", where, ran, corpus.StaticRan[fn.ID]-staticBefore)
				}
				for j := range got {
					if !got[j].IsZero() {
						return fmt.Errorf("%s: the static replacement returns zero values, caller got %s", where, vkit.Describe(got[j]))
					}
				}
				s.Class("call/static-replacement")
			case "repl":
				if ran != 0 || len(m.rec.Args) != len(args) {
					return fmt.Errorf("%s: mocked by a callback: original ran %d times, callback saw %d arguments", where, ran, len(m.rec.Args))
				}
				for j := range got {
					if !vkit.Same(got[j], m.rec.Res[j]) {
						return fmt.Errorf("%s: callback result %d not delivered", where, j)
					}
				}
			case "ret":
				if ran != 0 {
					return fmt.Errorf("%s: stubbed, but the original ran", where)
				}
				for j := range got {
					if !vkit.Same(got[j], m.ret[j]) {
						return fmt.Errorf("%s: stub result %d: want %s got %s", where, j, vkit.Describe(m.ret[j]), vkit.Describe(got[j]))
					}
				}
			case "origin":
				// the callback forwards to the origin placeholder: the original body runs exactly once through the trampoline
				if ran != 1 {
					return fmt.Errorf("%s: callback forwards to the origin placeholder; the original body ran %d times", where, ran)
				}
			}
		}
		return nil
	}
	for step, op := range c.Ops {
		ti := vkit.Pick(op.I[0], nTargets)
		k := win + ti
		fn := corpus.Fns[k]
		bi := vkit.Pick(op.I[1], nBuilders)
		h := vkit.Pick(op.I[2], 3) / 2 // mostly Func, sometimes ExportFunc
		t := st[ti]
		b := bs[bi]
		ow := owner{bi, h}
		curB = bi
		useKept = vkit.Pick(op.I[4], 3) == 0
		what := fmt.Sprintf("%s %s builder %d handle %d kept=%v", op.K, fn.Name, bi, h, useKept)
		var pv interface{}
		switch op.K {
		case "apply", "ret", "origin":
			if op.K == "ret" && h == 1 {
				op.K = "apply"
			}
			if old := t.owners[ow]; old != nil && old.kind == "ret" && op.K == "ret" {
				continue // Return on a live stub extends its sequence (C05)
			}
			m := &mock{kind: map[string]string{"apply": "repl", "ret": "ret", "origin": "origin"}[op.K]}
			pv = guard(func() {
				mk, em := handle(b, fn, h)
				switch m.kind {
				case "repl":
					if fn.Static != nil && vkit.Pick(op.I[3], 3) == 0 {
						// a package-level function as replacement (a function value in read-only data, not on the heap)
						m.kind = "static"
						mk.Apply(fn.Static)
						break
					}
					m.rec = &corpus.Rec{}
					mk.Apply(fn.MkRepl(m.rec))
				case "ret":
					m.ret = resultsFor(fn, op.I[3])
					vals := make([]interface{}, len(m.ret))
					for i := range vals {
						vals[i] = m.ret[i].Interface()
					}
					em.Return(vals...)
				case "origin":
					m.rec = &corpus.Rec{}
					rec := m.rec
					rec.Hook = func(args []reflect.Value) { rec.Res = fn.CallOrigin(args) }
					if em != nil {
						em.Origin(fn.Origin).Apply(fn.MkRepl(rec))
					} else {
						b.Pkg(corpus.PkgPath).ExportFunc(fn.Name).Origin(fn.Origin).Apply(fn.MkRepl(rec))
					}
					usedPlaceholder[k] = true
					usedHere = true
				}
			})
			if pv != nil {
				// goom may refuse a target (prologue it cannot relocate, function too short): then nothing may have changed
				if m.kind == "origin" || strings.Contains(fmt.Sprint(pv), "cannot do pathes") {
					s.Class("refused-apply")
					pv = nil
					if err := invariant(step, what+" (refused)"); err != nil {
						return err
					}
					continue
				}
				break
			}
			if _, had := t.owners[ow]; had {
				reapply++
			}
			t.owners[ow] = m
			t.last = m
			if len(t.owners) > 1 {
				t.shared = true
				multi++
			}
			t.ambig = false
			fp = append(fp, op.K[:1])
		case "cancel":
			pv = guard(func() { mk, _ := handle(b, fn, h); mk.Cancel() })
			if _, had := t.owners[ow]; had {
				delete(t.owners, ow)
				restores++
				if len(t.owners) == 0 {
					t.shared, t.ambig, t.last = false, false, nil
				} else if t.shared {
					t.ambig = true
				}
			}
			fp = append(fp, "c")
		case "reset", "reset2":
			pv = guard(func() {
				b.Reset()
				if op.K == "reset2" {
					b.Reset()
				}
			})
			for _, tt := range st {
				for o := range tt.owners {
					if o.b == bi {
						delete(tt.owners, o)
						restores++
						if len(tt.owners) == 0 {
							tt.shared, tt.ambig, tt.last = false, false, nil
						} else if tt.shared {
							tt.ambig = true
						}
					}
				}
			}
			if len(op.I) > 3 && vkit.Pick(op.I[3], 2) == 0 {
				// the builder, and the handles obtained from it, stay in use after its Reset
				s.Class("builder-and-handles-reused-after-reset")
				fp = append(fp, "Rk")
				break
			}
			bs[bi] = mocker.Create()
			for k := range kept {
				if k.b == bi {
					delete(kept, k)
				}
			}
			fp = append(fp, "R")
		case "neighbours":
			// functions next to the window were never mocked: they must behave as ever
			for _, kk := range []int{(win + nTargets) % len(corpus.Fns), (win + len(corpus.Fns) - 1) % len(corpus.Fns)} {
				f2 := corpus.Fns[kk]
				before := corpus.OrigRan[kk]
				if pv := guard(func() { f2.Call(corpus.FormDirect, argsFor(f2, 5)) }); pv != nil || corpus.OrigRan[kk]-before != 1 {
					return fmt.Errorf("step %d: untouched neighbour %s: panic %v, original ran %d times", step, f2.Name, pv, corpus.OrigRan[kk]-before)
				}
			}
		}
		if pv != nil {
			return fmt.Errorf("step %d (%s): panicked: %v", step, what, pv)
		}
		if err := invariant(step, what); err != nil {
			return err
		}
	}
	// all builders reset: the image equals the pristine image outside placeholder bodies
	for i, b := range bs {
		if pv := guard(func() { b.Reset() }); pv != nil {
			return fmt.Errorf("final Reset of builder %d panicked: %v", i, pv)
		}
	}
	for _, tt := range st {
		tt.owners, tt.ambig, tt.shared, tt.last = map[owner]*mock{}, false, false, nil
	}
	if err := invariant(len(c.Ops), "all builders reset"); err != nil {
		return err
	}
	if restores > 0 && (reapply > 0 || multi > 0) {
		s.NonTrivial(fmt.Sprintf("%d/%s", win, strings.Join(fp, "")))
		s.Class("history/restore-after-reapply-or-second-owner")
	}
	if multi > 0 {
		s.Class("history/two-owners-on-one-target")
	}
	if usedHere {
		s.Class("history/with-origin-placeholder")
	}
	s.Sample(c)
	return nil
}

var opGen = vkit.OpGen([]string{"apply", "ret", "origin", "cancel", "reset", "reset2", "neighbours"}, []int{5, 4, 2, 3, 2, 1, 1}, 6)

func TestVerifC02(t *testing.T) {
	if f, err := os.OpenFile(os.DevNull, os.O_WRONLY, 0); err == nil && os.Getenv("VERIF_VERBOSE") == "" {
		os.Stdout = f
	}
	img = vkit.SnapshotText()
	for _, fn := range corpus.Fns {
		entries = append(entries, reflect.ValueOf(fn.Fn).Pointer())
		p := reflect.ValueOf(fn.Origin).Elem().Pointer()
		f, ok := img.FuncAt(p)
		if !ok {
			t.Fatalf("placeholder of %s not found in the image", fn.Name)
		}
		placeholders = append(placeholders, [2]uintptr{uintptr(f.Entry), uintptr(f.End)})
	}
	p := &vkit.Prop{ID: "C02", Unit: "histories", Journal: true, New: func() interface{} { return &histCase{} },
		Gen: func(rt *rapid.T) interface{} {
			ops := rapid.SliceOfN(opGen, 2, 25).Draw(rt, "ops")
			w := int64(rapid.IntRange(0, len(corpus.Fns)/nTargets-1).Draw(rt, "window"))
			t0 := int64(rapid.IntRange(0, nTargets-1).Draw(rt, "focus"))
			for i := range ops {
				ops[i].I[5] = w
				if vkit.Pick(ops[i].I[0], 3) != 0 {
					ops[i].I[0] = t0 // most operations hit one target, so that re-applies and second owners happen
				}
			}
			return &histCase{Ops: ops}
		},
		Run: runHist}
	s := p.Main(t, vkit.Scale(1500, 8000))
	if !vkit.Replaying() {
		s.Note("text image %d bytes, %d corpus functions", len(img.Live), len(corpus.Fns))
		s.Done()
	}
}

// ---- refused applies in the middle of a history (a faithful trampoline cannot be built for some prologues) ----

type refusalCase struct {
	Z    int   `json:"zoo_function"`
	Pre  []int `json:"pre"`  // operations before the refused apply: 0 apply(b0) 1 return-stub(b0) 2 reset(b0) 3 apply(b1) 4 reset(b1) 5 cancel(b0)
	Who  int   `json:"refused_by_builder"`
	Post []int `json:"post"` // same alphabet, after the refused apply
}

var refusers []*corpus.Fn

var zooPlaceholders []vkit.Range

func findRefusers() {
	for _, fn := range corpus.Zoo {
		if f, ok := img.FuncAt(reflect.ValueOf(fn.Origin).Elem().Pointer()); ok {
			zooPlaceholders = append(zooPlaceholders, vkit.Range{Lo: uintptr(f.Entry), Hi: uintptr(f.End)})
		}
		b := mocker.Create()
		rec := &corpus.Rec{}
		if pv := guard(func() { b.Func(fn.Fn).Origin(fn.Origin).Apply(fn.MkRepl(rec)) }); pv != nil {
			refusers = append(refusers, fn)
		}
		b.Reset()
	}
}

// refusalText recognises goom's ways of refusing a target (error wrapped by the mocker, or a panic from the relocation code)
func refusalText(pv interface{}) bool {
	msg := fmt.Sprint(pv)
	for _, t := range []string{"cannot do pathes", "proxy func definition error", "address overflow", "not support of jump", "fixRelativeAddr err", "checkJumpBetween err"} {
		if strings.Contains(msg, t) {
			return true
		}
	}
	return false
}

func runRefusal(ci interface{}, s *vkit.Stats) error {
	c := ci.(*refusalCase)
	if len(refusers) == 0 {
		return nil
	}
	fn := refusers[c.Z%len(refusers)]
	entry := reflect.ValueOf(fn.Fn).Pointer()
	off := int(entry - img.Addr)
	bs := []*mocker.Builder{mocker.Create(), mocker.Create()}
	defer func() {
		for _, b := range bs {
			_ = guard(func() { b.Reset() })
		}
	}()
	live := map[int]bool{} // builder -> has a live mocker on fn
	shared := false
	var allowedPH []vkit.Range
	for k := range usedPlaceholder {
		allowedPH = append(allowedPH, vkit.Range{Lo: placeholders[k][0], Hi: placeholders[k][1]})
	}
	// placeholders of zoo functions whose origin-apply was accepted by findRefusers are rewritten bodies as well
	allowedPH = append(allowedPH, zooPlaceholders...)
	check := func(what string) error {
		allowed := append([]vkit.Range{}, allowedPH...)
		if len(live) > 0 || shared {
			allowed = append(allowed, vkit.Range{Lo: entry, Hi: entry + 13})
		}
		if bad := vkit.Outside(img.Diff(), allowed); len(bad) > 0 {
			return fmt.Errorf("%s on %s: image differs from pristine outside what may be patched now: %s", what, fn.Name, img.Describe(bad))
		}
		pristine := bytes.Equal(img.Live[off:off+13], img.Pristine[off:off+13])
		if len(live) == 0 && !pristine {
			return fmt.Errorf("%s on %s: no live mock, but the entry bytes are % x", what, fn.Name, img.Live[off:off+13])
		}
		return nil
	}
	do := func(op int, phase string) error {
		bi := 0
		if op == 3 || op == 4 {
			bi = 1
		}
		b := bs[bi]
		var pv interface{}
		switch op {
		case 0, 3:
			rec := &corpus.Rec{Res: resultsFor(fn, 7)}
			pv = guard(func() { b.Func(fn.Fn).Apply(fn.MkRepl(rec)) })
			if pv == nil {
				live[bi] = true
			}
		case 1:
			if fn.Type.NumOut() == 0 {
				return nil
			}
			res := resultsFor(fn, 9)
			vals := make([]interface{}, len(res))
			for i := range vals {
				vals[i] = res[i].Interface()
			}
			pv = guard(func() { b.Func(fn.Fn).Return(vals...) })
			if pv == nil {
				live[bi] = true
			}
		case 2, 4:
			pv = guard(func() { b.Reset() })
			delete(live, bi)
		case 5:
			pv = guard(func() { b.Func(fn.Fn).Cancel() })
			delete(live, bi)
		}
		if len(live) > 1 {
			shared = true
		}
		if len(live) == 0 {
			shared = false
		}
		if pv != nil && refusalText(pv) {
			// refused (too short, or the cached mocker still carries the origin placeholder of the refused apply): goom has
			// unpatched whatever this builder had on the function before it refused
			delete(live, bi)
			if len(live) > 0 {
				shared = true
			}
			pv = nil
			s.Class("later-apply-refused-too")
		}
		if pv != nil {
			return fmt.Errorf("%s: operation %d on %s panicked: %v", phase, op, fn.Name, pv)
		}
		return check(fmt.Sprintf("%s: operation %d", phase, op))
	}
	for _, op := range c.Pre {
		if err := do(op, "before the refused apply"); err != nil {
			return err
		}
	}
	// the refused apply
	hadLive := len(live) > 0
	rec := &corpus.Rec{}
	pv := guard(func() { bs[c.Who%2].Func(fn.Fn).Origin(fn.Origin).Apply(fn.MkRepl(rec)) })
	if pv == nil {
		return nil // accepted this time (not a refuser after all): other units cover it
	}
	if hadLive {
		// goom unpatches the previous mock before it finds out that it must refuse: which state the function is in
		// is not fixed by the statement; the byte invariant still is
		shared = true
		s.Class("refused-apply-over-a-live-mock")
	} else {
		s.Class("refused-apply-after-all-mocks-were-reset")
	}
	if err := check("right after the refused apply"); err != nil {
		return err
	}
	for _, op := range c.Post {
		if err := do(op, "after the refused apply"); err != nil {
			return err
		}
	}
	for i, b := range bs {
		if pv := guard(func() { b.Reset() }); pv != nil {
			return fmt.Errorf("final Reset of builder %d panicked: %v", i, pv)
		}
	}
	live, shared = map[int]bool{}, false
	if err := check("after all builders were reset"); err != nil {
		return err
	}
	s.NonTrivial(fmt.Sprint(*c))
	s.Sample(c)
	return nil
}

func TestVerifC02Refusals(t *testing.T) {
	if img == nil {
		t.Skip("runs after TestVerifC02")
	}
	findRefusers()
	p := &vkit.Prop{ID: "C02", Unit: "refused-applies", Journal: true, New: func() interface{} { return &refusalCase{} },
		Gen: func(rt *rapid.T) interface{} {
			return &refusalCase{Z: rapid.IntRange(0, 31).Draw(rt, "z"), Pre: rapid.SliceOfN(rapid.IntRange(0, 5), 0, 6).Draw(rt, "pre"),
				Who: rapid.IntRange(0, 1).Draw(rt, "who"), Post: rapid.SliceOfN(rapid.IntRange(0, 5), 0, 4).Draw(rt, "post")}
		},
		Run: runRefusal}
	s := p.Main(t, vkit.Scale(600, 8000))
	if !vkit.Replaying() {
		var names []string
		for _, f := range refusers {
			names = append(names, f.Name)
		}
		s.Note("zoo functions whose origin-apply goom refuses: %v", names)
		s.Done()
	}
}
