//go:build go1.18
// +build go1.18

// Package stubs holds the checks of properties C04 (conditional stubs) and C05 (result sequences).
package stubs

import (
	"time"
	"fmt"
	"reflect"

	mocker "github.com/tencent/goom"
	"github.com/tencent/goom/zverif/vkit"
)

// S2 is a small comparable struct parameter type.
type S2 = vkit.Small

var ran [32]int64

//go:noinline
func f1(a int) int { ran[0]++; return a + 1 }

//go:noinline
func f2(a int, b string) string { ran[1]++; return fmt.Sprint(a, b) }

//go:noinline
func f3(a string, b float64, c bool) (int, error) { ran[2]++; return len(a), nil }

//go:noinline
func f4(a S2, b *int, c []int, d int) int { ran[3]++; return d + len(c) }

//go:noinline
func f5(a interface{}, b int) int { ran[4]++; return b }

//go:noinline
func f6(a []string, b int) int { ran[12]++; return b + len(a) }

//go:noinline
func f7(a map[string]int, b []int) int { ran[13]++; return len(a) + len(b) }

//go:noinline
func f8(a int) (int, int) { ran[14]++; return a, a + 1 }

//go:noinline
func v0(va ...int) int { ran[5]++; return len(va) }

//go:noinline
func v1(a string, va ...int) int { ran[6]++; return len(a) + len(va) }

//go:noinline
func v2(a int, b string, va ...string) string { ran[7]++; return b + fmt.Sprint(a, len(va)) }

//go:noinline
func v3(a int, b bool, c float64, va ...interface{}) int { ran[8]++; return a + len(va) }

// T carries methods (receiver must be ignored by conditions).
type T struct{ N int }

//go:noinline
func (t *T) M1(a int) int { ran[9]++; return t.N + a }

//go:noinline
func (t T) M2(a string, b int) string { ran[10]++; return a + fmt.Sprint(b+t.N) }

//go:noinline
func (t *T) MV(a int, va ...string) int { ran[11]++; return a + len(va) + t.N }

// SI is an interface whose methods are stubbed with conditions (the *IContext receiver must be ignored by them).
type SI interface {
	Do(a int, b string) string
	DoV(a int, va ...int) int
}

var siv SI

var asDo = func(ctx *mocker.IContext, a int, b string) (r string) { vkit.Sink(1); return }
var asDoV = func(ctx *mocker.IContext, a int, va ...int) (r int) { vkit.Sink(2); return }

var noOriginal int64

type target struct {
	iface    string      // non-empty: method of interface variable siv
	as       interface{} // As() template of an interface method
	name     string
	fn       interface{} // function, or method expression for methods
	typ      reflect.Type // signature without receiver
	method   string       // non-empty for methods
	ptrRecv  bool
	variadic bool
	ran      *int64
}

var targets []*target

func sigWithoutRecv(t reflect.Type) reflect.Type {
	in := make([]reflect.Type, 0, t.NumIn())
	for i := 1; i < t.NumIn(); i++ {
		in = append(in, t.In(i))
	}
	out := make([]reflect.Type, 0, t.NumOut())
	for i := 0; i < t.NumOut(); i++ {
		out = append(out, t.Out(i))
	}
	return reflect.FuncOf(in, out, t.IsVariadic())
}

func init() {
	add := func(name string, fn interface{}, r *int64) {
		t := reflect.TypeOf(fn)
		targets = append(targets, &target{name: name, fn: fn, typ: t, variadic: t.IsVariadic(), ran: r})
	}
	add("f1", f1, &ran[0])
	add("f2", f2, &ran[1])
	add("f3", f3, &ran[2])
	add("f4", f4, &ran[3])
	add("f5", f5, &ran[4])
	add("f6", f6, &ran[12])
	add("f7", f7, &ran[13])
	add("f8", f8, &ran[14])
	add("v0", v0, &ran[5])
	add("v1", v1, &ran[6])
	add("v2", v2, &ran[7])
	add("v3", v3, &ran[8])
	// the same methods handed to Func as method expressions: plain functions whose first parameter is the receiver
	add("Func((*T).M1)", (*T).M1, &ran[9])
	add("Func((*T).MV)", (*T).MV, &ran[11])
	addM := func(name, method string, me interface{}, ptr bool, r *int64) {
		t := sigWithoutRecv(reflect.TypeOf(me))
		targets = append(targets, &target{name: name, fn: me, typ: t, method: method, ptrRecv: ptr, variadic: t.IsVariadic(), ran: r})
	}
	addM("(*T).M1", "M1", (*T).M1, true, &ran[9])
	addM("T.M2", "M2", T.M2, false, &ran[10])
	addM("(*T).MV", "MV", (*T).MV, true, &ran[11])
	addI := func(name string, as interface{}) {
		t := sigWithoutRecv(reflect.TypeOf(as))
		targets = append(targets, &target{name: "SI." + name, iface: name, as: as, typ: t, variadic: t.IsVariadic(), ran: &noOriginal})
	}
	addI("Do", asDo)
	addI("DoV", asDoV)
}

// call invokes the target with flattened arguments (fixed..., variadic elements...)
// Stuck is the panic value reported for a call of a stubbed target that does not come back: the matching code of a stub
// takes microseconds, so a call that has not returned after 20 seconds is blocked (e.g. on a lock a recovered panic left held).
// The bound is a liveness bound, three orders of magnitude above any observed duration, not a performance expectation.
const Stuck = "the call did not return within 20s (blocked inside the stub)"

// call runs callNow on another goroutine and waits for it
func (t *target) call(recvN int, flat []reflect.Value) (res []reflect.Value, pv interface{}) {
	type out struct {
		res []reflect.Value
		pv  interface{}
	}
	ch := make(chan out, 1)
	go func() {
		r, p := t.callNow(recvN, flat)
		ch <- out{r, p}
	}()
	select {
	case o := <-ch:
		return o.res, o.pv
	case <-time.After(20 * time.Second):
		return nil, Stuck
	}
}

func (t *target) callNow(recvN int, flat []reflect.Value) (res []reflect.Value, pv interface{}) {
	defer func() { pv = recover() }()
	if t.iface != "" {
		// a compiled interface method call on the mocked variable
		switch t.iface {
		case "Do":
			return []reflect.Value{reflect.ValueOf(siv.Do(int(flat[0].Int()), flat[1].String()))}, nil
		default:
			va := make([]int, 0, len(flat)-1)
			for _, v := range flat[1:] {
				va = append(va, int(v.Int()))
			}
			return []reflect.Value{reflect.ValueOf(siv.DoV(int(flat[0].Int()), va...))}, nil
		}
	}
	fv := reflect.ValueOf(t.fn)
	var in []reflect.Value
	if t.method != "" {
		if t.ptrRecv {
			in = append(in, reflect.ValueOf(&T{N: recvN}))
		} else {
			in = append(in, reflect.ValueOf(T{N: recvN}))
		}
	}
	in = append(in, flat...)
	// reflect.Call packs the variadic tail itself and enters the (patched) function like any caller
	return fv.Call(in), nil
}

// nfixed is the number of non-variadic parameters.
func (t *target) nfixed() int {
	if t.variadic {
		return t.typ.NumIn() - 1
	}
	return t.typ.NumIn()
}

// paramType is the type of flattened argument i.
func (t *target) paramType(i int) reflect.Type {
	if t.variadic && i >= t.nfixed() {
		return t.typ.In(t.typ.NumIn() - 1).Elem()
	}
	return t.typ.In(i)
}

var one, two, oneB = 1, 2, 1

// pool of ordinary values per parameter type: small, so that conditions overlap and order matters
func pool(t reflect.Type) []reflect.Value {
	mk := func(vs ...interface{}) []reflect.Value {
		out := make([]reflect.Value, len(vs))
		for i, v := range vs {
			x := reflect.New(t).Elem()
			if v != nil {
				x.Set(reflect.ValueOf(v))
			}
			out[i] = x
		}
		return out
	}
	switch t.Kind() {
	case reflect.Int:
		return mk(0, 1, 2, 3, -1, 100)
	case reflect.String:
		return mk("", "a", "ab", "b", "abc")
	case reflect.Bool:
		return mk(false, true)
	case reflect.Float64:
		return mk(0.0, 1.5, -2.25, 1e9)
	case reflect.Struct:
		return mk(S2{}, S2{A: 1, B: true, C: "x"}, S2{A: 1, B: true, C: "y"})
	case reflect.Ptr:
		if t == reflect.TypeOf(&T{}) {
			// receivers of method expressions: compared by pointee like any pointer
			return mk(&recvA, &recvB, &recvA2)
		}
		return mk(nil, &one, &two, &oneB)
	case reflect.Slice:
		if t.Elem().Kind() == reflect.String {
			// values that print alike under %v and are different: nil / empty, one element with a blank / two elements
			return mk(nil, []string{}, []string{"a b"}, []string{"a", "b"}, []string{"a"})
		}
		return mk(nil, []int{}, []int{1}, []int{1, 2}, []int{1})
	case reflect.Map:
		return mk(nil, map[string]int{}, map[string]int{"a": 1}, map[string]int{"a": 2})
	case reflect.Interface:
		return mk(nil, 1, 2, "a", "b")
	}
	panic("no pool for " + t.String())
}

var recvA, recvB, recvA2 = T{N: 1}, T{N: 2}, T{N: 1}

// eq is the reference equality of condition values (the judged domain of property C18)
func eq(a, b reflect.Value) bool {
	switch a.Kind() {
	case reflect.Ptr:
		if a.IsNil() || b.IsNil() {
			return a.IsNil() && b.IsNil()
		}
		return a.Elem().Interface() == b.Elem().Interface()
	case reflect.Slice, reflect.Map:
		if a.IsNil() || b.IsNil() {
			return a.IsNil() && b.IsNil()
		}
		return reflect.DeepEqual(a.Interface(), b.Interface())
	case reflect.Interface:
		if a.IsNil() || b.IsNil() {
			return a.IsNil() && b.IsNil()
		}
		return a.Interface() == b.Interface()
	}
	return a.Interface() == b.Interface()
}

// result k of stub s for the target's result types: distinct for distinct (s,k)
var resultCache = map[string][]reflect.Value{}

func (t *target) result(s, k int) []reflect.Value {
	key := fmt.Sprintf("%s/%d/%d", t.name, s, k)
	if r, ok := resultCache[key]; ok {
		return r
	}
	out := make([]reflect.Value, t.typ.NumOut())
	defer func() { resultCache[key] = out }()
	for i := range out {
		rt := t.typ.Out(i)
		v := reflect.New(rt).Elem()
		switch rt.Kind() {
		case reflect.Int:
			v.SetInt(int64(1000*(s+1) + k))
		case reflect.String:
			v.SetString(fmt.Sprintf("s%dr%d", s, k))
		case reflect.Interface: // error
			if (s+k)%3 != 0 {
				v.Set(reflect.ValueOf(&vkit.E{Code: 1000*(s+1) + k}))
			}
		}
		out[i] = v
	}
	return out
}

func ifaces(vs []reflect.Value) []interface{} {
	out := make([]interface{}, len(vs))
	for i, v := range vs {
		out[i] = v.Interface()
	}
	return out
}
