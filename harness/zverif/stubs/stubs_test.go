//go:build go1.18 && amd64
// +build go1.18,amd64

package stubs

import (
	"fmt"
	"os"
	"reflect"
	"runtime"
	"strings"
	"sync"
	"sync/atomic"
	"testing"

	mocker "github.com/tencent/goom"
	"github.com/tencent/goom/arg"
	"github.com/tencent/goom/zverif/vkit"
	"pgregory.net/rapid"
)

type exprSpec struct {
	Kind string `json:"k"` // val | any | in
	V    int    `json:"v,omitempty"`
	In   []int  `json:"in,omitempty"`
}

type clauseSpec struct {
	Kind    string       `json:"kind"` // when | in
	Exprs   []exprSpec   `json:"exprs,omitempty"`
	Alts    [][]exprSpec `json:"alts,omitempty"`
	Seq     int          `json:"seq"`
	Returns bool         `json:"returns_form"`
	Dups    uint         `json:"repeat_mask"`                           // bit k set: element k of the sequence repeats the value of element k-1
	Split   int          `json:"returns_then_andreturn_from,omitempty"` // Returns form: elements from this index on are appended with AndReturn
	// BadAfter > 0 (targets with two plain results, Return+AndReturn form): after that many elements an ill-formed row (right first
	// value, second value of another size) is offered with AndReturn; it is refused and must leave the sequence as it was
	BadAfter int `json:"refused_row_after,omitempty"`
}

type callSpec struct {
	Args []int `json:"args"` // pool indices of the flattened arguments
	Recv int   `json:"recv"`
}

type caseSpec struct {
	Target     int          `json:"target"`
	TargetName string       `json:"target_name"`
	HasDefault bool         `json:"has_default"`
	DefSeq     int          `json:"default_seq"`
	DefReturns bool         `json:"default_returns_form"`
	DefDups    uint         `json:"default_repeat_mask"`
	DefSplit   int          `json:"default_returns_then_andreturn_from,omitempty"`
	Clauses    []clauseSpec `json:"clauses"`
	Calls      []callSpec   `json:"calls"`
	Eval       bool         `json:"also_eval"`
	// Repeat: the last call is made this many more times (thousands of selections of one stub: the tail stays the last element)
	Repeat int `json:"repeat_last_call,omitempty"`
}

func guard(f func()) (pv interface{}) {
	defer func() { pv = recover() }()
	f()
	return nil
}

func (t *target) val(pos int, idx int) reflect.Value {
	p := pool(t.paramType(pos))
	return p[((idx%len(p))+len(p))%len(p)]
}

func (t *target) exprArg(pos int, e exprSpec) interface{} {
	switch e.Kind {
	case "any":
		return arg.Any()
	case "in":
		var vs []interface{}
		for _, i := range e.In {
			vs = append(vs, t.val(pos, i).Interface())
		}
		return arg.In(vs...)
	}
	return t.val(pos, e.V).Interface()
}

func (t *target) matches(pos int, e exprSpec, a reflect.Value) bool {
	switch e.Kind {
	case "any":
		return true
	case "in":
		for _, i := range e.In {
			if eq(t.val(pos, i), a) {
				return true
			}
		}
		return false
	}
	return eq(t.val(pos, e.V), a)
}

// decide is the reference interpreter: index of the first registered clause all of whose expressions match, -1 = default
func (t *target) decide(c *caseSpec, args []reflect.Value) int {
	for ci, cl := range c.Clauses {
		tuples := cl.Alts
		if cl.Kind == "when" {
			tuples = [][]exprSpec{cl.Exprs}
		}
		for _, tu := range tuples {
			if len(tu) != len(args) {
				continue // variadic: counts must agree
			}
			ok := true
			for i, e := range tu {
				if !t.matches(i, e, args[i]) {
					ok = false
					break
				}
			}
			if ok {
				return ci
			}
		}
	}
	return -1
}

func (t *target) base(b *mocker.Builder) mocker.ExportedMocker {
	if t.iface != "" {
		return b.Interface(&siv).Method(t.iface).As(t.as)
	}
	if t.method == "" {
		return b.Func(t.fn)
	}
	if t.ptrRecv {
		return b.Struct(&T{}).Method(t.method)
	}
	return b.Struct(T{}).Method(t.method)
}

// vidx maps a position of a sequence to the index of its value: positions whose mask bit is set repeat their predecessor
func vidx(mask uint, k int) int {
	v := 0
	for i := 1; i <= k; i++ {
		if mask&(1<<uint(i)) == 0 {
			v++
		}
	}
	return v
}

func (t *target) resultArgs(s, k int) []interface{} { return ifaces(t.result(s, k)) }

// returnsArg is one element of Returns(...): a plain value for single-result functions, else a []interface{}
func (t *target) returnsArg(s, k int) interface{} {
	r := t.resultArgs(s, k)
	if len(r) == 1 {
		return r[0]
	}
	return r
}

// scribbled is what a caller's reused list holds after the configuration call it was passed to
type scribbled struct{ N int }

// ReusedLists counts configurations after which the caller refilled every list it had passed in
var ReusedLists int64

func (t *target) configure(b *mocker.Builder, c *caseSpec) (w *mocker.When) {
	bm := t.base(b)
	// every list handed to When / In / Return / Returns / AndReturn stays the caller's: in half of the cases the caller
	// refills all of them (rows of Returns and tuples of In included) once the whole configuration is made, as a
	// table-driven test reusing its buffers would; the stubs must keep what they were given
	var owned [][]interface{}
	own := func(l []interface{}) []interface{} {
		owned = append(owned, l)
		for _, e := range l {
			if inner, ok := e.([]interface{}); ok {
				owned = append(owned, inner)
			}
		}
		return l
	}
	defer func() {
		if (c.DefSeq+len(c.Clauses))%2 == 0 {
			for _, l := range owned {
				for i := range l {
					l[i] = scribbled{i}
				}
			}
			ReusedLists++
		}
	}()
	if c.HasDefault {
		if c.DefReturns {
			var vs []interface{}
			n := c.DefSeq
			if c.DefSplit > 0 && c.DefSplit < n {
				n = c.DefSplit
			}
			for k := 0; k < n; k++ {
				vs = append(vs, t.returnsArg(0, vidx(c.DefDups, k)))
			}
			w = bm.Returns(own(vs)...)
			for k := n; k < c.DefSeq; k++ {
				w = w.AndReturn(own(t.resultArgs(0, vidx(c.DefDups, k)))...)
			}
		} else {
			w = bm.Return(own(t.resultArgs(0, 0))...)
			for k := 1; k < c.DefSeq; k++ {
				w = w.AndReturn(own(t.resultArgs(0, vidx(c.DefDups, k)))...)
			}
		}
	}
	for ci, cl := range c.Clauses {
		if cl.Kind == "when" {
			var as []interface{}
			for i, e := range cl.Exprs {
				as = append(as, t.exprArg(i, e))
			}
			if w == nil {
				w = bm.When(own(as)...)
			} else {
				w = w.When(own(as)...)
			}
		} else {
			var alts []interface{}
			for _, tu := range cl.Alts {
				if len(tu) == 1 && !t.variadic && t.typ.NumIn() == 1 {
					alts = append(alts, t.exprArg(0, tu[0]))
					continue
				}
				var as []interface{}
				for i, e := range tu {
					as = append(as, t.exprArg(i, e))
				}
				alts = append(alts, as)
			}
			w = w.In(own(alts)...)
		}
		if cl.Returns {
			var vs []interface{}
			n := cl.Seq
			if cl.Split > 0 && cl.Split < n {
				n = cl.Split
			}
			for k := 0; k < n; k++ {
				vs = append(vs, t.returnsArg(ci+1, vidx(cl.Dups, k)))
			}
			w = w.Returns(own(vs)...)
			for k := n; k < cl.Seq; k++ {
				w = w.AndReturn(own(t.resultArgs(ci+1, vidx(cl.Dups, k)))...)
			}
		} else {
			w = w.Return(own(t.resultArgs(ci+1, 0))...)
			for k := 1; k < cl.Seq; k++ {
				if cl.BadAfter == k && t.name == "f8" {
					first := t.resultArgs(ci+1, vidx(cl.Dups, k))[0]
					if pv := guard(func() { w.AndReturn(first, "a value of another size") }); pv == nil {
						panic("an ill-formed result row (string for an int result) was accepted by AndReturn")
					}
				}
				w = w.AndReturn(own(t.resultArgs(ci+1, vidx(cl.Dups, k)))...)
			}
		}
	}
	return w
}

func descAll(vs []reflect.Value) string {
	var p []string
	for _, v := range vs {
		p = append(p, vkit.Describe(v))
	}
	return "(" + strings.Join(p, ", ") + ")"
}

// runCase applies the configuration and replays the calls against the reference interpreter with one cursor per stub.
func runCase(ci interface{}, s *vkit.Stats, prop string) error {
	c := ci.(*caseSpec)
	t := targets[c.Target%len(targets)]
	if !c.HasDefault && len(c.Clauses) == 0 {
		return nil
	}
	b := mocker.Create()
	siv = nil
	defer func() { b.Reset(); siv = nil }()
	var w *mocker.When
	if pv := guard(func() { w = t.configure(b, c) }); pv != nil {
		return fmt.Errorf("%s: configuring the well-formed stub set panicked: %v", t.name, pv)
	}
	if (c.DefSeq+len(c.Clauses))%2 == 0 {
		s.Class("caller-refilled-its-lists-after-configuring")
	}
	cursor := map[int]int{}
	seqLen := func(stub int) int {
		if stub < 0 {
			return c.DefSeq
		}
		return c.Clauses[stub].Seq
	}
	nontrivial := false
	var fp []string
	calls := c.Calls
	if c.Repeat > 0 && len(calls) > 0 {
		calls = append([]callSpec(nil), calls...)
		for i := 0; i < c.Repeat; i++ {
			calls = append(calls, c.Calls[len(c.Calls)-1])
		}
		s.Class("history-with-thousands-of-calls-of-one-stub")
	}
	for n, call := range calls {
		args := make([]reflect.Value, len(call.Args))
		for i, idx := range call.Args {
			args[i] = t.val(i, idx)
		}
		stub := t.decide(c, args)
		where := fmt.Sprintf("%s call %d with %s", t.name, n, descAll(args))
		before := *t.ran
		got, pv := t.call(call.Recv, args)
		if *t.ran != before {
			return fmt.Errorf("%s: stubbed, but the original body ran", where)
		}
		if stub < 0 && !c.HasDefault {
			if pv == nil {
				return fmt.Errorf("%s: no condition matches and there is no default; the call returned %s instead of panicking", where, descAll(got))
			}
			if !strings.Contains(fmt.Sprint(pv), "no suitable condition") {
				return fmt.Errorf("%s: no condition matches and there is no default; panicked with %q, want the 'no suitable condition' message", where, fmt.Sprint(pv))
			}
			s.Class("decided/panic-no-condition")
			nontrivial = true
			fp = append(fp, "p")
			continue
		}
		if pv != nil {
			return fmt.Errorf("%s: must be answered by stub %d (-1 = default), panicked: %v", where, stub, pv)
		}
		k := cursor[stub]
		if k >= seqLen(stub) {
			k = seqLen(stub) - 1
		}
		mask := c.DefDups
		if stub >= 0 {
			mask = c.Clauses[stub].Dups
		}
		want := t.result(stub+1, vidx(mask, k))
		if mask>>1&(1<<uint(seqLen(stub)-1)-1) != 0 && seqLen(stub) > 1 {
			s.Class("sequence/with-repeated-neighbours")
		}
		if (stub >= 0 && c.Clauses[stub].Split > 0) || (stub < 0 && c.DefSplit > 0) {
			s.Class("sequence/returns-then-andreturn")
		}
		if seqLen(stub) > 1 {
			cursor[stub]++
		}
		for i := range want {
			if !vkit.Same(want[i], got[i]) {
				// say which stub actually answered
				who := "an unknown stub"
				for ss := -1; ss < len(c.Clauses); ss++ {
					for kk := 0; kk < seqLen(ss); kk++ {
						if vkit.Same(t.result(ss+1, kk)[i], got[i]) {
							who = fmt.Sprintf("stub %d element %d", ss, kk)
						}
					}
				}
				return fmt.Errorf("%s: the first matching stub is %d (-1 = default), its element %d is %s; the caller received %s (from %s)", where, stub, k, descAll(want), descAll(got), who)
			}
		}
		// non-variadic plain functions: When.Eval must agree with the call (only without sequences: Eval consumes elements)
		if c.Eval && !t.variadic && t.method == "" && t.iface == "" && seqLen(stub) == 1 {
			var ev []interface{}
			if pv := guard(func() { ev = w.Eval(ifaces(args)...) }); pv != nil {
				return fmt.Errorf("%s: When.Eval panicked: %v", where, pv)
			}
			for i := range want {
				if !reflect.DeepEqual(ev[i], want[i].Interface()) && !(ev[i] == nil && want[i].IsZero()) {
					return fmt.Errorf("%s: When.Eval yields %v, the call yields %s", where, ev, descAll(want))
				}
			}
			s.Class("eval-agrees")
		}
		switch {
		case stub < 0:
			s.Class("decided/default")
			if len(c.Clauses) > 0 {
				nontrivial = true
			}
		case stub == 0:
			s.Class("decided/first-clause")
		default:
			s.Class("decided/later-clause")
			nontrivial = true
		}
		if stub >= 0 {
			s.Class("clause/" + c.Clauses[stub].Kind)
		}
		if t.variadic {
			s.Class(fmt.Sprintf("variadic/%d-fixed", t.nfixed()))
		}
		if t.method != "" {
			s.Class("method")
		}
		if t.iface != "" {
			s.Class("interface-method")
		}
		if k >= 1 {
			s.Class("sequence/element>=1")
		}
		if seqLen(stub) > 1 && cursor[stub] > seqLen(stub) {
			s.Class("sequence/beyond-tail")
			if prop == "C05" {
				nontrivial = true
			}
		}
		if n < len(c.Calls) {
			fp = append(fp, fmt.Sprint(stub))
		}
	}
	if prop == "C05" {
		long := 0
		for ss := -1; ss < len(c.Clauses); ss++ {
			if (ss >= 0 || c.HasDefault) && seqLen(ss) >= 2 {
				long++
			}
		}
		nontrivial = nontrivial && long >= 2
	}
	if nontrivial {
		s.NonTrivial(fmt.Sprintf("%s/%d/%v/%s", t.name, len(c.Clauses), c.HasDefault, strings.Join(fp, "")))
	}
	s.Sample(c)
	return nil
}

func genExpr(rt *rapid.T, t *target, pos int, allowIn bool) exprSpec {
	n := len(pool(t.paramType(pos)))
	switch k := rapid.IntRange(0, 9).Draw(rt, "exprkind"); {
	case k < 6:
		return exprSpec{Kind: "val", V: rapid.IntRange(0, n-1).Draw(rt, "v")}
	case k < 8 || !allowIn:
		return exprSpec{Kind: "any"}
	default:
		return exprSpec{Kind: "in", In: rapid.SliceOfN(rapid.IntRange(0, n-1), 1, 3).Draw(rt, "in")}
	}
}

func genCase(maxSeq, minCalls, maxCalls int) func(rt *rapid.T) interface{} {
	return func(rt *rapid.T) interface{} {
		c := &caseSpec{Target: rapid.IntRange(0, len(targets)-1).Draw(rt, "target")}
		if maxSeq > 1 && rapid.IntRange(0, 7).Draw(rt, "two-results?") == 0 {
			for i, tt := range targets {
				if tt.name == "f8" {
					c.Target = i
				}
			}
		}
		t := targets[c.Target]
		c.TargetName = t.name
		c.HasDefault = rapid.IntRange(0, 3).Draw(rt, "default") != 0
		c.DefSeq = 1
		if c.HasDefault {
			c.DefSeq = rapid.IntRange(1, maxSeq).Draw(rt, "defseq")
			c.DefReturns = rapid.Bool().Draw(rt, "defreturns")
			if c.DefReturns && c.DefSeq > 1 && rapid.IntRange(0, 2).Draw(rt, "defsplit?") == 0 {
				c.DefSplit = rapid.IntRange(1, c.DefSeq-1).Draw(rt, "defsplit")
			}
			if maxSeq > 1 && rapid.IntRange(0, 2).Draw(rt, "defdups") == 0 {
				c.DefDups = uint(rapid.IntRange(0, 255).Draw(rt, "defmask")) &^ 1
			}
		}
		nc := rapid.IntRange(0, 5).Draw(rt, "nclauses")
		whenOnly := false
		if rapid.IntRange(0, 9).Draw(rt, "many-clauses?") == 0 {
			nc = rapid.IntRange(13, 40).Draw(rt, "nclauses-many") // many conditions on one stub: registration order still decides
			whenOnly = rapid.IntRange(0, 2).Draw(rt, "when-only") != 0
		}
		if !c.HasDefault && nc == 0 {
			nc = 1
		}
		arity := func() int {
			if t.variadic {
				return t.nfixed() + rapid.IntRange(0, 3).Draw(rt, "nvar")
			}
			return t.nfixed()
		}
		for i := 0; i < nc; i++ {
			cl := clauseSpec{Kind: "when", Seq: rapid.IntRange(1, maxSeq).Draw(rt, "seq"), Returns: rapid.Bool().Draw(rt, "returns")}
			if maxSeq > 1 && rapid.IntRange(0, 2).Draw(rt, "dups") == 0 {
				cl.Dups = uint(rapid.IntRange(0, 255).Draw(rt, "mask")) &^ 1
			}
			if !cl.Returns && cl.Seq > 1 && t.name == "f8" && rapid.Bool().Draw(rt, "bad-row?") {
				cl.BadAfter = rapid.IntRange(1, cl.Seq-1).Draw(rt, "bad-after")
			}
			if cl.Returns && cl.Seq > 1 && rapid.IntRange(0, 2).Draw(rt, "split?") == 0 {
				cl.Split = rapid.IntRange(1, cl.Seq-1).Draw(rt, "split")
			}
			first := i == 0 && !c.HasDefault
			if !first && !whenOnly && rapid.IntRange(0, 3).Draw(rt, "in-clause") == 0 {
				cl.Kind = "in"
				na := rapid.IntRange(1, 3).Draw(rt, "nalts")
				ar := arity()
				for a := 0; a < na; a++ {
					if t.variadic && rapid.IntRange(0, 3).Draw(rt, "alt-other-length") == 0 {
						ar = arity()
					}
					var tu []exprSpec
					if a > 0 && len(cl.Alts[a-1]) > 0 && rapid.Bool().Draw(rt, "neighbour-alt") {
						// the previous tuple with one position changed to another value (plain values throughout)
						prev := cl.Alts[a-1]
						at := rapid.IntRange(0, len(prev)-1).Draw(rt, "alt-pos")
						for p, e := range prev {
							if e.Kind != "val" {
								e = exprSpec{Kind: "val", V: rapid.IntRange(0, len(pool(t.paramType(p)))-1).Draw(rt, "v")}
							}
							if p == at {
								e.V = (e.V + rapid.IntRange(1, 3).Draw(rt, "alt-shift")) % len(pool(t.paramType(p)))
							}
							tu = append(tu, e)
						}
						cl.Alts = append(cl.Alts, tu)
						continue
					}
					for p := 0; p < ar; p++ {
						tu = append(tu, genExpr(rt, t, p, false))
					}
					cl.Alts = append(cl.Alts, tu)
				}
			} else {
				ar := arity()
				if first && t.variadic && ar == t.nfixed() {
					// the very first When of a mocker is length-checked against NumIn (the variadic parameter counts as one):
					// a condition with zero variadic elements can only be given on later clauses
					ar++
				}
				for p := 0; p < ar; p++ {
					cl.Exprs = append(cl.Exprs, genExpr(rt, t, p, true))
				}
			}
			c.Clauses = append(c.Clauses, cl)
		}
		ncalls := rapid.IntRange(minCalls, maxCalls).Draw(rt, "ncalls")
		for n := 0; n < ncalls; n++ {
			call := callSpec{Recv: rapid.IntRange(0, 3).Draw(rt, "recv")}
			// hit-biased: derive the arguments from a clause, or draw fresh ones
			var from []exprSpec
			if len(c.Clauses) > 0 && rapid.IntRange(0, 3).Draw(rt, "hit") != 0 {
				cl := c.Clauses[rapid.IntRange(0, len(c.Clauses)-1).Draw(rt, "hitclause")]
				if cl.Kind == "when" {
					from = cl.Exprs
				} else {
					from = cl.Alts[rapid.IntRange(0, len(cl.Alts)-1).Draw(rt, "hitalt")]
				}
			}
			ar := len(from)
			if from == nil {
				ar = arity()
			}
			for p := 0; p < ar; p++ {
				n := len(pool(t.paramType(p)))
				idx := rapid.IntRange(0, n-1).Draw(rt, "arg")
				if from != nil && rapid.IntRange(0, 5).Draw(rt, "keep") != 0 {
					switch from[p].Kind {
					case "val":
						idx = from[p].V
					case "in":
						idx = from[p].In[rapid.IntRange(0, len(from[p].In)-1).Draw(rt, "inpick")]
					}
				}
				call.Args = append(call.Args, idx)
			}
			c.Calls = append(c.Calls, call)
		}
		c.Eval = rapid.Bool().Draw(rt, "eval")
		if maxSeq > 1 && rapid.IntRange(0, 19).Draw(rt, "repeat?") == 0 {
			c.Repeat = rapid.IntRange(4200, 9000).Draw(rt, "repeat")
		}
		return c
	}
}

func quiet() {
	if f, err := os.OpenFile(os.DevNull, os.O_WRONLY, 0); err == nil && os.Getenv("VERIF_VERBOSE") == "" {
		os.Stdout = f
	}
}

// TestVerifC04 — conditional stubs select by first matching condition, else default (no sequences).
func TestVerifC04(t *testing.T) {
	quiet()
	p := &vkit.Prop{ID: "C04", Unit: "configurations", New: func() interface{} { return &caseSpec{} }, Gen: genCase(1, 1, 20),
		Run: func(c interface{}, s *vkit.Stats) error { return runCase(c, s, "C04") }}
	s := p.Main(t, vkit.Scale(8000, 40000))
	if !vkit.Replaying() {
		s.Done()
	}
}

// TestVerifC05 — result sequences in order, sticky at the last element, independent per stub (sequential half).
func TestVerifC05(t *testing.T) {
	quiet()
	p := &vkit.Prop{ID: "C05", Unit: "sequential", New: func() interface{} { return &caseSpec{} }, Gen: genCase(8, 5, 60),
		Run: func(c interface{}, s *vkit.Stats) error { return runCase(c, s, "C05") }}
	s := p.Main(t, vkit.Scale(2000, 30000))
	if !vkit.Replaying() {
		s.Done()
	}
}

// ---- C05, concurrent half (race build): one stub, many callers ----

type concCase struct {
	Len        int `json:"sequence_length"`
	Goroutines int `json:"goroutines"`
	Calls      int `json:"calls_per_goroutine"`
	Yield      int `json:"yield_every"`
}

func runConc(ci interface{}, s *vkit.Stats) error {
	c := ci.(*concCase)
	b := mocker.Create()
	defer b.Reset()
	var vals []interface{}
	for k := 0; k < c.Len; k++ {
		vals = append(vals, 5000+k)
	}
	if pv := guard(func() { b.Func(f1).Returns(vals...) }); pv != nil {
		return fmt.Errorf("configuring Returns(%d values) panicked: %v", c.Len, pv)
	}
	last := 5000 + c.Len - 1
	var lastSeen int32 // set after a call that returned the last element has completed
	var ready, goFlag int32
	var wg sync.WaitGroup
	errs := make([]error, c.Goroutines)
	lastCount := int64(0)
	for g := 0; g < c.Goroutines; g++ {
		wg.Add(1)
		go func(g int) {
			defer wg.Done()
			defer func() {
				if r := recover(); r != nil {
					errs[g] = fmt.Errorf("caller %d panicked: %v", g, r)
				}
			}()
			atomic.AddInt32(&ready, 1)
			for atomic.LoadInt32(&goFlag) == 0 {
			}
			prev := -1
			for i := 0; i < c.Calls; i++ {
				sawLastBefore := atomic.LoadInt32(&lastSeen) == 1
				v := f1(i)
				pos := v - 5000
				if pos < 0 || pos >= c.Len {
					errs[g] = fmt.Errorf("caller %d call %d received %d, not an element of the sequence 5000..%d", g, i, v, last)
					return
				}
				if pos < prev {
					errs[g] = fmt.Errorf("caller %d call %d received position %d after it had received position %d: the sequence went backwards", g, i, pos, prev)
					return
				}
				prev = pos
				if sawLastBefore && v != last {
					errs[g] = fmt.Errorf("caller %d call %d received position %d although a call returning the last element had completed before this call started", g, i, pos)
					return
				}
				if v == last {
					atomic.StoreInt32(&lastSeen, 1)
					atomic.AddInt64(&lastCount, 1)
				}
				if c.Yield > 0 && i%c.Yield == 0 {
					runtime.Gosched()
				}
			}
		}(g)
	}
	for atomic.LoadInt32(&ready) != int32(c.Goroutines) {
		runtime.Gosched()
	}
	atomic.StoreInt32(&goFlag, 1)
	wg.Wait()
	for _, e := range errs {
		if e != nil {
			return e
		}
	}
	// quiescent: the last element is the only one returned
	for i := 0; i < 3; i++ {
		if c.Goroutines*c.Calls >= c.Len && f1(0) != last {
			return fmt.Errorf("after %d calls to a sequence of %d, a further call does not receive the last element", c.Goroutines*c.Calls, c.Len)
		}
	}
	s.Class("rounds")
	if c.Goroutines*c.Calls > c.Len {
		s.Class("rounds-running-past-the-tail")
	}
	s.NonTrivial(fmt.Sprint(*c))
	s.Sample(c)
	return nil
}

func TestVerifC05Concurrent(t *testing.T) {
	quiet()
	p := &vkit.Prop{ID: "C05", Unit: "concurrent", New: func() interface{} { return &concCase{} },
		Gen: func(rt *rapid.T) interface{} {
			return &concCase{Len: rapid.IntRange(2, 64).Draw(rt, "len"), Goroutines: rapid.IntRange(2, 16).Draw(rt, "g"),
				Calls: rapid.IntRange(1, 40).Draw(rt, "calls"), Yield: rapid.IntRange(0, 5).Draw(rt, "yield")}
		},
		Run: runConc}
	s := p.Main(t, vkit.Scale(250, 4000))
	if !vkit.Replaying() {
		s.Done()
	}
}

// ---- sequences that are extended while they are being consumed (the tail is never reached before the last extension) ----

type growCase struct {
	Steps []int `json:"steps"` // alternately: number of results appended, number of calls made (clamped so that the tail is not reached early)
	Tail  int   `json:"tail_calls"`
	Cond  bool  `json:"on_a_condition"`
}

func runGrow(ci interface{}, s *vkit.Stats) error {
	c := ci.(*growCase)
	b := mocker.Create()
	defer b.Reset()
	var w *mocker.When
	var values []int
	next := 5000
	calls := 0
	appendN := func(n int) {
		for i := 0; i < n; i++ {
			next++
			values = append(values, next)
			switch {
			case w == nil && c.Cond:
				w = b.Func(f1).Return(-7).When(3).Return(next)
			case w == nil:
				w = b.Func(f1).Return(next)
			default:
				w = w.AndReturn(next)
			}
		}
	}
	arg := 0
	if c.Cond {
		arg = 3
	}
	for i, n := range c.Steps {
		if i%2 == 0 {
			if pv := guard(func() { appendN(n) }); pv != nil {
				return fmt.Errorf("extending the sequence to %d results panicked: %v", len(values)+n, pv)
			}
			continue
		}
		for k := 0; k < n && calls < len(values)-1; k++ {
			var got int
			if pv := guard(func() { got = f1(arg) }); pv != nil {
				return fmt.Errorf("call %d of a sequence of %d results panicked: %v", calls+1, len(values), pv)
			}
			if got != values[calls] {
				return fmt.Errorf("call %d received %d; the sequence configured so far (%d results, extended %d times while being consumed) has %d at that position", calls+1, got, len(values), i/2+1, values[calls])
			}
			calls++
		}
	}
	if len(values) == 0 {
		return nil
	}
	for ; calls < len(values)+c.Tail; calls++ {
		want := values[len(values)-1]
		if calls < len(values) {
			want = values[calls]
		}
		var got int
		if pv := guard(func() { got = f1(arg) }); pv != nil {
			return fmt.Errorf("call %d panicked: %v", calls+1, pv)
		}
		if got != want {
			return fmt.Errorf("call %d of a sequence of %d results received %d, want %d", calls+1, len(values), got, want)
		}
	}
	s.Class("sequence-extended-while-consumed")
	if len(values) >= 64 {
		s.Class("sequence-extended-while-consumed/>=64-results")
	}
	s.NonTrivial(fmt.Sprint(c.Steps, c.Cond))
	return nil
}

func TestVerifC05Growing(t *testing.T) {
	quiet()
	p := &vkit.Prop{ID: "C05", Unit: "growing-sequences", New: func() interface{} { return &growCase{} },
		Gen: func(rt *rapid.T) interface{} {
			return &growCase{Steps: rapid.SliceOfN(rapid.OneOf(rapid.IntRange(1, 8), rapid.IntRange(1, 90)), 2, 12).Draw(rt, "steps"),
				Tail: rapid.IntRange(1, 6).Draw(rt, "tail"), Cond: rapid.Bool().Draw(rt, "cond")}
		},
		Run: runGrow}
	s := p.Main(t, vkit.Scale(600, 6000))
	if !vkit.Replaying() {
		s.Done()
	}
}
