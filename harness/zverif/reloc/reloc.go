//go:build go1.18
// +build go1.18

// Package reloc is the oracle of property C03's static half: given the original
// code of a function and the bytes goom produced for the trampoline, it decides
// with the reference decoder whether the trampoline is a faithful relocation.
package reloc

import (
	"bytes"
	"encoding/binary"
	"fmt"

	"github.com/tencent/goom/zverif/x86eval"
	refx86 "github.com/tencent/goom/zverif/refx86"
)

// Info describes a validated relocation.
type Info struct {
	Instrs   int
	PCRel    int // instructions of the prefix with a PC-relative operand
	Widened  int // rel8 branches re-encoded as rel32
	Calls    int
	TrailImm int // PC-relative instructions with immediate bytes after the displacement
	Prefix   int // bytes of the original covered
	Shape    string
}

func signed(code []byte, off, w int) int64 {
	switch w {
	case 1:
		return int64(int8(code[off]))
	case 2:
		return int64(int16(binary.LittleEndian.Uint16(code[off:])))
	case 4:
		return int64(int32(binary.LittleEndian.Uint32(code[off:])))
	}
	return 0
}

// Validate checks that reloc[:] placed at trampAddr equals, instruction by
// instruction, orig[0:n] placed at origAddr: same operation and operands, every
// PC-relative operand still denoting the same absolute address (or the
// corresponding relocated instruction when the target lies inside the copied
// prefix), followed by nothing else. n must be an instruction boundary >= least.
func Validate(orig []byte, origAddr uint64, n int, reloc []byte, trampAddr uint64, least int) (Info, error) {
	var info Info
	info.Prefix = n
	if n < least {
		return info, fmt.Errorf("relocated prefix covers %d bytes, fewer than the %d bytes the entry jump overwrites", n, least)
	}
	if n > len(orig) {
		return info, fmt.Errorf("relocated prefix (%d bytes) exceeds the function (%d bytes)", n, len(orig))
	}
	// pass 1: decode the original prefix, remember instruction starts
	type ins struct {
		pos int
		in  refx86.Inst
	}
	var oi []ins
	for p := 0; p < n; {
		in, err := refx86.Decode(orig[p:], 64)
		if err != nil {
			return info, fmt.Errorf("reference decoder cannot decode the original at +%d (% x): no oracle", p, orig[p:min(p+8, len(orig))])
		}
		oi = append(oi, ins{p, in})
		p += in.Len
		if p > n {
			return info, fmt.Errorf("prefix length %d is not an instruction boundary of the original (instruction at +%d has %d bytes)", n, p-in.Len, in.Len)
		}
	}
	// pass 2: decode the relocated stream in lock step
	newPos := map[int]int{}
	q := 0
	var ri []ins
	for i := range oi {
		if q >= len(reloc) {
			return info, fmt.Errorf("relocated code ends after %d of %d instructions", i, len(oi))
		}
		in, err := refx86.Decode(reloc[q:], 64)
		if err != nil {
			return info, fmt.Errorf("relocated code undecodable at +%d (% x), original instruction %d is %v", q, reloc[q:min(q+8, len(reloc))], i, oi[i].in)
		}
		newPos[oi[i].pos] = q
		ri = append(ri, ins{q, in})
		q += in.Len
	}
	newPos[n] = q
	if q != len(reloc) {
		return info, fmt.Errorf("relocated code has %d bytes but the %d relocated instructions end at %d", len(reloc), len(oi), q)
	}
	for i := range oi {
		o, r := oi[i], ri[i]
		ob := orig[o.pos : o.pos+o.in.Len]
		rb := reloc[r.pos : r.pos+r.in.Len]
		if o.in.Op != r.in.Op {
			return info, fmt.Errorf("instruction %d: original %v (% x) became %v (% x)", i, o.in, ob, r.in, rb)
		}
		info.Instrs++
		if o.in.PCRel == 0 {
			if !bytes.Equal(ob, rb) {
				return info, fmt.Errorf("instruction %d has no PC-relative operand but changed: % x -> % x (%v -> %v)", i, ob, rb, o.in, r.in)
			}
			continue
		}
		info.PCRel++
		if o.in.Op == refx86.CALL {
			info.Calls++
		}
		if r.in.PCRel == 0 {
			return info, fmt.Errorf("instruction %d: %v lost its PC-relative operand: %v (% x)", i, o.in, r.in, rb)
		}
		// bytes after the displacement (immediates) must survive
		ot := ob[o.in.PCRelOff+o.in.PCRel:]
		rt := rb[r.in.PCRelOff+r.in.PCRel:]
		if len(ot) > 0 {
			info.TrailImm++
		}
		if !bytes.Equal(ot, rt) {
			return info, fmt.Errorf("instruction %d: %v (% x): bytes after the displacement % x became % x (relocated: %v, % x)", i, o.in, ob, ot, rt, r.in, rb)
		}
		// operands other than the PC-relative one must be the same
		for k := range o.in.Args {
			oa, ra := o.in.Args[k], r.in.Args[k]
			_, orel := oa.(refx86.Rel)
			om, omem := oa.(refx86.Mem)
			if orel || (omem && om.Base == refx86.RIP) {
				continue
			}
			if fmt.Sprint(oa) != fmt.Sprint(ra) {
				return info, fmt.Errorf("instruction %d: operand %d changed from %v to %v (%v -> %v)", i, k, oa, ra, o.in, r.in)
			}
		}
		if r.in.PCRel != o.in.PCRel {
			info.Widened++
		} else if !bytes.Equal(ob[:o.in.PCRelOff], rb[:r.in.PCRelOff]) {
			return info, fmt.Errorf("instruction %d: opcode/ModRM bytes changed: % x -> % x", i, ob, rb)
		}
		ot64 := origAddr + uint64(o.pos+o.in.Len) + uint64(signed(ob, o.in.PCRelOff, o.in.PCRel))
		rt64 := trampAddr + uint64(r.pos+r.in.Len) + uint64(signed(rb, r.in.PCRelOff, r.in.PCRel))
		if ot64 > origAddr && ot64 < origAddr+uint64(n) {
			// target inside the copied prefix: must map to the corresponding relocated instruction
			np, ok := newPos[int(ot64-origAddr)]
			if !ok || rt64 != trampAddr+uint64(np) {
				return info, fmt.Errorf("instruction %d: %v targets +%d inside the copied prefix; relocated copy targets %#x, want %#x", i, o.in, ot64-origAddr, rt64, trampAddr+uint64(np))
			}
			continue
		}
		if ot64 == origAddr {
			// a branch to the function's own entry: either the relocated entry or the original entry is the same code
			if rt64 != trampAddr && rt64 != origAddr {
				return info, fmt.Errorf("instruction %d: %v targets the entry; relocated copy targets %#x", i, o.in, rt64)
			}
			continue
		}
		if rt64 != ot64 {
			return info, fmt.Errorf("instruction %d: %v (% x at %#x) denotes %#x; relocated %v (% x at %#x) denotes %#x (off by %d)",
				i, o.in, ob, origAddr+uint64(o.pos), ot64, r.in, rb, trampAddr+uint64(r.pos), rt64, int64(rt64-ot64))
		}
	}
	info.Shape = shapeOf(oi[0].in, info)
	return info, nil
}

func shapeOf(first refx86.Inst, i Info) string {
	s := first.Op.String()
	if i.Widened > 0 {
		s += "/widened"
	}
	if i.Calls > 0 {
		s += "/call-in-prefix"
	}
	if i.TrailImm > 0 {
		s += "/riprel+imm"
	}
	if i.PCRel == 0 {
		s += "/no-pcrel"
	}
	return s
}

// SplitJumpBack separates the written trampoline into relocated prefix and the appended jump and
// checks that the jump lands on origAddr+n. It tries both jump forms goom can emit.
func SplitJumpBack(written []byte, trampAddr, origAddr uint64, n int) (prefix []byte, err error) {
	for _, jl := range []int{5, 12} {
		if len(written) < jl {
			continue
		}
		cut := len(written) - jl
		r, e := x86eval.EvalJump(written[cut:], 64, trampAddr+uint64(cut))
		if e != nil {
			continue
		}
		switch r.Kind {
		case "rel":
			if r.Target != origAddr+uint64(n) {
				return nil, fmt.Errorf("the jump back lands on %#x, want original+%d = %#x", r.Target, n, origAddr+uint64(n))
			}
			return written[:cut], nil
		case "abs":
			// JMP [RDX] with RDX = code address would load the target from the code bytes: only sound for function values
			return nil, fmt.Errorf("the jump back uses the absolute form through a register holding %#x (a code address, not a function value)", r.RegValue)
		}
	}
	return nil, fmt.Errorf("no jump back found at the end of the trampoline (% x)", written[max(0, len(written)-12):])
}

// BranchInto reports an instruction of fn (other than those of the prefix targeting their own block start) that
// branches into (0,n): goom must refuse such functions.
func BranchInto(fn []byte, n int) (found bool, at int, desc string) {
	for p := 0; p < len(fn); {
		in, err := refx86.Decode(fn[p:], 64)
		if err != nil {
			return false, 0, ""
		}
		if in.PCRel != 0 {
			if _, ok := in.Args[0].(refx86.Rel); ok {
				t := int64(p+in.Len) + signed(fn, p+in.PCRelOff, in.PCRel)
				if t > 0 && t < int64(n) {
					return true, p, fmt.Sprintf("%v at +%d targets +%d", in, p, t)
				}
			}
		}
		p += in.Len
	}
	return false, 0, ""
}

func min(a, b int) int {
	if a < b {
		return a
	}
	return b
}

func max(a, b int) int {
	if a > b {
		return a
	}
	return b
}

// ValidateTrampoline validates a written trampoline whose length is not known: it walks original and relocated
// instructions in lock step until at least `least` original bytes are covered and the relocated stream continues
// with a jump to original+covered; then it validates the covered prefix like Validate.
func ValidateTrampoline(orig []byte, origAddr uint64, tramp []byte, trampAddr uint64, least int) (Info, int, error) {
	p, q := 0, 0
	for steps := 0; steps < 64; steps++ {
		if p >= least {
			// does the relocated stream continue with the jump back to original+p ?
			if q+5 <= len(tramp) {
				if r, err := x86eval.EvalJump(tramp[q:q+5], 64, trampAddr+uint64(q)); err == nil && r.Kind == "rel" && r.Target == origAddr+uint64(p) {
					info, verr := Validate(orig, origAddr, p, tramp[:q], trampAddr, least)
					return info, q + 5, verr
				}
			}
		}
		if p >= len(orig) || q >= len(tramp) {
			break
		}
		oi, err := refx86.Decode(orig[p:], 64)
		if err != nil {
			return Info{}, 0, fmt.Errorf("reference decoder cannot decode the original at +%d: no oracle", p)
		}
		ri, err := refx86.Decode(tramp[q:], 64)
		if err != nil {
			return Info{}, 0, fmt.Errorf("trampoline undecodable at +%d (% x) where the original has %v", q, tramp[q:min(q+8, len(tramp))], oi)
		}
		if oi.Op != ri.Op {
			return Info{}, 0, fmt.Errorf("trampoline instruction at +%d is %v, the original at +%d is %v (and no jump back to original+%d precedes it)", q, ri, p, oi, p)
		}
		p += oi.Len
		q += ri.Len
	}
	return Info{}, 0, fmt.Errorf("no jump back to the original found in the trampoline after %d original bytes", p)
}
