//go:build go1.18
// +build go1.18

package reloc

import (
	refx86 "github.com/tencent/goom/zverif/refx86"
)

// FrameAt is the state of the stack pointer before the instruction at Off: Delta bytes were pushed / reserved since
// the function was entered (0 at the entry, where SP points at the return address).
type FrameAt struct {
	Off   int
	Delta int
	Inst  string
}

// FrameWalk follows straight-line code from its first byte up to and including the first unconditional JMP or RET and
// reports the stack-pointer displacement the code itself has produced before every instruction (PUSH, POP, SUB/ADD/LEA on
// RSP). ok is false when an instruction cannot be decoded or writes RSP in a way the walk does not model.
func FrameWalk(code []byte) (out []FrameAt, ok bool) {
	delta := 0
	for p := 0; p < len(code); {
		in, err := refx86.Decode(code[p:], 64)
		if err != nil {
			return out, false
		}
		out = append(out, FrameAt{Off: p, Delta: delta, Inst: in.String()})
		switch in.Op {
		case refx86.JMP, refx86.RET:
			return out, true
		case refx86.PUSH, refx86.PUSHFQ:
			delta += 8
		case refx86.POP, refx86.POPFQ:
			delta -= 8
		case refx86.SUB, refx86.ADD:
			if r, isReg := in.Args[0].(refx86.Reg); isReg && r == refx86.RSP {
				imm, isImm := in.Args[1].(refx86.Imm)
				if !isImm {
					return out, false
				}
				if in.Op == refx86.SUB {
					delta += int(imm)
				} else {
					delta -= int(imm)
				}
			}
		case refx86.LEA:
			if r, isReg := in.Args[0].(refx86.Reg); isReg && r == refx86.RSP {
				m, isMem := in.Args[1].(refx86.Mem)
				if !isMem || m.Base != refx86.RSP || m.Index != 0 {
					return out, false
				}
				delta -= int(int32(uint32(m.Disp)))
			}
		default:
			if len(in.Args) > 0 {
				if r, isReg := in.Args[0].(refx86.Reg); isReg && r == refx86.RSP && in.Op != refx86.CMP && in.Op != refx86.TEST {
					return out, false
				}
			}
		}
		p += in.Len
	}
	return out, false
}
