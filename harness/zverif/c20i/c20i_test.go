//go:build go1.18 && amd64
// +build go1.18,amd64

// Package c20i observes stub space at its consumer (property C20): every stub address goom installs into the method table of a
// mocked interface variable was requested from the stub space, so no address may ever be installed twice in the life of the process.
package c20i

import (
	"fmt"
	"strings"
	"os"
	"reflect"
	"testing"
	"unsafe"

	mocker "github.com/tencent/goom"
	"github.com/tencent/goom/internal/hack"
	"github.com/tencent/goom/zverif/corpus"
	"github.com/tencent/goom/zverif/vkit"
	"pgregory.net/rapid"
)

type histCase struct {
	Iface int       `json:"iface"`
	Ops   []vkit.Op `json:"ops"` // K: apply | ret | cancel | reset | other ; I: variable, method, value code
}

var img *vkit.TextImage

// handed: every stub address seen in a method table so far, with where it was first seen
var handed = map[uintptr]string{}

func guard(f func()) (pv interface{}) {
	defer func() { pv = recover() }()
	f()
	return nil
}

func funs(ii *corpus.IfaceInfo, v int) []uintptr {
	if ii.IsNil(v) {
		return nil
	}
	ifc := (*hack.Iface)(unsafe.Pointer(reflect.ValueOf(ii.Var(v)).Pointer()))
	if ifc.Tab == nil {
		return nil
	}
	n := len(ii.Methods)
	out := make([]uintptr, n)
	for i := 0; i < n; i++ {
		out[i] = *(*uintptr)(unsafe.Pointer(uintptr(unsafe.Pointer(&ifc.Tab.Fun[0])) + uintptr(i)*unsafe.Sizeof(uintptr(0))))
	}
	return out
}

func runHist(ci interface{}, s *vkit.Stats) error {
	c := ci.(*histCase)
	ii := corpus.Ifaces[c.Iface%len(corpus.Ifaces)]
	other := corpus.Ifaces[(c.Iface+1)%len(corpus.Ifaces)]
	b, b2 := mocker.Create(), mocker.Create()
	defer func() {
		b.Reset()
		b2.Reset()
		for v := 0; v < 3; v++ {
			ii.SetNil(v)
			other.SetNil(v)
		}
	}()
	for v := 0; v < 3; v++ {
		ii.SetNil(v)
		other.SetNil(v)
	}
	last := map[string]uintptr{} // (iface, variable, slot) -> stub address currently installed
	fresh, reinstalled := 0, 0
	observe := func(step int, what string) error {
		for _, x := range []*corpus.IfaceInfo{ii, other} {
			for v := 0; v < 3; v++ {
				for slot, addr := range funs(x, v) {
					key := fmt.Sprintf("%s/%d/%d", x.Name, v, slot)
					if addr == last[key] {
						continue
					}
					last[key] = addr
					if addr == 0 || img.Contains(addr) {
						continue // an ordinary function of the binary (e.g. the shared 'method not implements' handler), not stub space
					}
					if first, dup := handed[addr]; dup {
						return fmt.Errorf("step %d (%s): stub address %#x installed for %s was handed out before (%s)", step, what, addr, key, first)
					}
					handed[addr] = fmt.Sprintf("%s at step %d of an earlier or this history", key, step)
					fresh++
				}
			}
		}
		return nil
	}
	for step, op := range c.Ops {
		for len(op.I) < 3 {
			op.I = append(op.I, 0)
		}
		v := vkit.Pick(op.I[0], 3)
		m := ii.Methods[vkit.Pick(op.I[1], len(ii.Methods))]
		what := fmt.Sprintf("%s %s variable %d method %s", op.K, ii.Name, v, m.Name)
		var pv interface{}
		switch op.K {
		case "apply":
			pv = guard(func() { b.Interface(ii.Var(v)).Method(m.Name).Apply(m.MkCb(&corpus.Rec{Res: results(m, op.I[2])})) })
		case "ret":
			pv = guard(func() { b.Interface(ii.Var(v)).Method(m.Name).As(m.As).Return(ifaces(results(m, op.I[2]))...) })
		case "cancel":
			pv = guard(func() { b.Interface(ii.Var(v)).Cancel() })
			reinstalled++
		case "reset":
			pv = guard(func() { b.Reset() })
			reinstalled++
		case "other":
			om := other.Methods[vkit.Pick(op.I[1], len(other.Methods))]
			pv = guard(func() { b2.Interface(other.Var(v)).Method(om.Name).Apply(om.MkCb(&corpus.Rec{Res: results(om, op.I[2])})) })
		}
		if pv != nil {
			if strings.Contains(fmt.Sprint(pv), "cannot allocate memory") || strings.Contains(fmt.Sprint(pv), "space usage overflow") {
				// goom maps one page per stub and never unmaps: a process that made tens of thousands of interface mocks runs into
				// vm.max_map_count. That is the harness' volume, reported by goom as an error, not a double hand-out.
				s.Exclude("mapping-limit-of-the-process-reached")
				return nil
			}
			return fmt.Errorf("step %d (%s): panicked: %v", step, what, pv)
		}
		if err := observe(step, what); err != nil {
			return err
		}
	}
	s.ClassN("stub-addresses-installed", fresh)
	if fresh >= 2 {
		s.NonTrivial(fmt.Sprint(c.Iface, c.Ops))
		if reinstalled > 0 {
			s.Class("history-with-cancel-or-reset-between-mocks")
		}
		s.Sample(c)
	}
	return nil
}

func results(m *corpus.IMethod, code int64) []reflect.Value {
	t := reflect.TypeOf(m.As)
	r := make([]reflect.Value, t.NumOut())
	for i := range r {
		r[i] = vkit.Value(t.Out(i), uint64(code)+uint64(i))
	}
	return r
}

func ifaces(vs []reflect.Value) []interface{} {
	o := make([]interface{}, len(vs))
	for i, v := range vs {
		if v.Kind() == reflect.Interface && v.IsNil() {
			continue
		}
		o[i] = v.Interface()
	}
	return o
}

func TestVerifC20Consumers(t *testing.T) {
	if f, err := os.OpenFile(os.DevNull, os.O_WRONLY, 0); err == nil && os.Getenv("VERIF_VERBOSE") == "" {
		os.Stdout = f
	}
	img = vkit.SnapshotText()
	gen := vkit.OpGen([]string{"apply", "ret", "cancel", "reset", "other"}, []int{5, 4, 2, 1, 2}, 3)
	p := &vkit.Prop{ID: "C20", Unit: "consumers", New: func() interface{} { return &histCase{} },
		Gen: func(rt *rapid.T) interface{} {
			return &histCase{Iface: rapid.IntRange(0, len(corpus.Ifaces)-1).Draw(rt, "iface"), Ops: rapid.SliceOfN(gen, 2, 16).Draw(rt, "ops")}
		},
		Run: runHist}
	s := p.Main(t, vkit.Scale(1500, 3000)) // per process: goom maps one page per stub and the process has a mapping limit
	if !vkit.Replaying() {
		s.Done()
	}
}
