//go:build go1.18 && amd64
// +build go1.18,amd64

// Package c19: debug and trace logging never change what a mock does (property C19).
package c19

import (
	"encoding/json"
	"errors"
	"fmt"
	"os"
	"os/exec"
	"reflect"
	"strings"
	"testing"
	"time"
	"unsafe"

	mocker "github.com/tencent/goom"
	"github.com/tencent/goom/arg"
	"github.com/tencent/goom/zverif/corpus"
	"github.com/tencent/goom/zverif/reloc"
	"github.com/tencent/goom/zverif/vkit"
	"pgregory.net/rapid"
)

// ---- hostile values: rendering them for the log must not change or break anything ----

// BadStringer panics when printed.
type BadStringer struct{ N int }

func (b BadStringer) String() string { panic("String() of BadStringer called") }

// BadErr is an error whose Error method panics on a nil receiver dereference.
type BadErr struct{ msg *string }

func (e *BadErr) Error() string { return *e.msg }

type hidden struct {
	p  *int
	i  interface{}
	f  func() int
	e  error
	sp *hidden
}

//go:noinline
func hostile(n *vkit.Node, e error, i interface{}, s fmt.Stringer, h hidden, big []int, pp **int) (error, interface{}, *vkit.Node) {
	return errors.New("orig"), 1, nil
}

type adder struct{ k int }

func (a *adder) add(x int) int { return x + a.k }

type wide struct {
	X [33]int8
	Y [3][12]uint16
}

//go:noinline
func hostile2(a [64]byte, b [40]int, m map[string]interface{}, c chan int, f func(), u unsafe.Pointer, z complex128, w wide, e [0]int) ([64]byte, [40]int, wide) {
	return [64]byte{1}, [40]int{2}, wide{}
}

//go:noinline
func noResult(x int) { vkit.Sink(uint64(x)) }

//go:noinline
func textFn(s string, bs []byte, e error) (string, error) { return "orig:" + s, e }

//go:noinline
func sliceFn(bs []byte, is []int, ss []string) ([]byte, []int) { return bs, is }

// sliceLens are lengths around whatever a renderer might abbreviate at
var sliceLens = []int{0, 1, 7, 8, 15, 16, 17, 31, 32, 33, 40, 64, 65, 100, 600}

func slicesFor(code int64) ([]byte, []int, []string) {
	if code < 0 {
		code = -code
	}
	n := sliceLens[code%int64(len(sliceLens))]
	m := sliceLens[(code/16)%int64(len(sliceLens))]
	bs := make([]byte, n, n+int(code%3)*8)
	is := make([]int, m)
	ss := make([]string, n%41)
	for i := range bs {
		bs[i] = byte(i*7 + int(code))
	}
	for i := range is {
		is[i] = i*1001 + int(code%97)
	}
	for i := range ss {
		ss[i] = fmt.Sprint("s", i, code%13)
	}
	return bs, is, ss
}

// textFor builds text of 0..600 bytes from units of 1..4 bytes (ASCII, Latin, CJK, emoji), optionally with invalid UTF-8 or control characters
func textFor(code int64) string {
	if code < 0 {
		code = -code
	}
	units := []string{"a", "é", "世", "😀", "%v", "\n", "\x00", "\xff\xfe", " "}
	u := units[code%4]
	n := []int{0, 1, 31, 33, 43, 64, 65, 100, 120, 125, 126, 127, 128, 129, 150, 300}[(code/4)%16]
	t := strings.Repeat(u, n)
	switch (code / 64) % 5 {
	case 1:
		t += units[4+int(code/320)%5]
	case 2:
		t = units[4+int(code/320)%5] + t
	case 3:
		t = t + "x" + t
	}
	return t
}

func hostile2Args(code int64) []reflect.Value {
	var a [64]byte
	var b [40]int
	for i := range a {
		a[i] = byte(int64(i) + code)
	}
	for i := range b {
		b[i] = int(code) * i
	}
	ms := []map[string]interface{}{nil, {}, {"k": nil, "r": &a}}
	cs := []chan int{nil, make(chan int), make(chan int, 3)}
	fs := []func(){nil, func() {}}
	x := 7
	us := []unsafe.Pointer{nil, unsafe.Pointer(&x)}
	c := int(code)
	if c < 0 {
		c = -c
	}
	w := wide{}
	w.X[32] = int8(c)
	w.Y[2][11] = uint16(c)
	return []reflect.Value{reflect.ValueOf(a), reflect.ValueOf(b), reflect.ValueOf(ms[c%3]), reflect.ValueOf(cs[c%3]), reflect.ValueOf(fs[c%2]),
		reflect.ValueOf(us[c%2]), reflect.ValueOf(complex(float64(c), -1.5)), reflect.ValueOf(w), reflect.ValueOf([0]int{})}
}

//go:noinline
func vfn(a string, va ...interface{}) (int, error) { return len(a) + len(va), nil }

//go:noinline
func vints(a int, b string, va ...int) int { return a + len(b) + len(va) }

func hostileArgs(code int64) []reflect.Value {
	ring := &vkit.Node{V: int(code % 7)}
	ring.Next = ring
	ring.Up = &vkit.Node{V: 2, Next: ring}
	var nodes = []*vkit.Node{nil, ring, {V: 3}}
	var typedNil *BadErr
	x := 5
	msg := "m"
	errs := []error{nil, typedNil, &BadErr{}, &BadErr{msg: &msg}, errors.New("e")}
	ifs := []interface{}{nil, typedNil, (*int)(nil), BadStringer{1}, ring, []interface{}{1, nil, "s"}, map[string]interface{}{"k": nil}}
	strs := []fmt.Stringer{nil, BadStringer{2}, (*badPtrStringer)(nil)}
	h := hidden{}
	if code%2 == 1 {
		h = hidden{p: &x, i: typedNil, f: func() int { return 1 }, e: typedNil}
		h.sp = &h
	}
	var big []int
	if code%5 == 4 {
		big = make([]int, 200000)
	}
	var pp **int
	if code%3 == 0 {
		var np *int
		pp = &np
	}
	c := int(code)
	if c < 0 {
		c = -c
	}
	return []reflect.Value{reflect.ValueOf(nodes[c%3]), box(errs[c%5]), boxI(ifs[c%7]), boxS(strs[c%3]), reflect.ValueOf(h), reflect.ValueOf(big), reflect.ValueOf(pp)}
}

type badPtrStringer struct{ n int }

func (b *badPtrStringer) String() string { return fmt.Sprint(b.n) } // nil receiver: panics

func box(e error) reflect.Value         { return reflect.ValueOf(&e).Elem() }
func boxI(i interface{}) reflect.Value  { return reflect.ValueOf(&i).Elem() }
func boxS(s fmt.Stringer) reflect.Value { return reflect.ValueOf(&s).Elem() }

type scen struct {
	Kind  string  `json:"kind"` // fn | variadic | method | iface | panic | hostile
	K     int     `json:"k"`
	Codes []int64 `json:"codes"`
}

func guard(f func()) (pv interface{}) {
	defer func() { pv = recover() }()
	f()
	return nil
}

func keys(vs []reflect.Value) string {
	var p []string
	for _, v := range vs {
		p = append(p, vkit.ContentKey(v))
	}
	return strings.Join(p, ",")
}

func code(sc *scen, i int) int64 {
	if len(sc.Codes) == 0 {
		return int64(i)
	}
	return sc.Codes[i%len(sc.Codes)] + int64(i/len(sc.Codes))
}

func valuesFor(ts []reflect.Type, c int64) []reflect.Value {
	out := make([]reflect.Value, len(ts))
	for i, t := range ts {
		out[i] = vkit.Value(t, uint64(c)+uint64(i)*5)
	}
	return out
}

func ins(t reflect.Type, skip int) []reflect.Type {
	var r []reflect.Type
	for i := skip; i < t.NumIn(); i++ {
		r = append(r, t.In(i))
	}
	return r
}

func outs(t reflect.Type) []reflect.Type {
	var r []reflect.Type
	for i := 0; i < t.NumOut(); i++ {
		r = append(r, t.Out(i))
	}
	return r
}

func ifaces(vs []reflect.Value) []interface{} {
	out := make([]interface{}, len(vs))
	for i, v := range vs {
		out[i] = v.Interface()
	}
	return out
}

// play runs the scenario and returns its transcript: calls, recorded arguments, results and panic classes.
func play(sc *scen) (tr []string) {
	b := mocker.Create()
	defer b.Reset()
	say := func(f string, a ...interface{}) { tr = append(tr, fmt.Sprintf(f, a...)) }
	call := func(name string, f func() []reflect.Value) {
		var got []reflect.Value
		done := false
		if pv := guard(func() { got = f(); done = true }); pv != nil || !done {
			// (!done with a nil value: panic(nil), which recover reports as nil in modules that declare go < 1.21)
			msg := fmt.Sprint(pv)
			if i := strings.IndexByte(msg, '\n'); i > 0 {
				msg = msg[:i]
			}
			say("%s -> panic %T %s", name, pv, msg)
			return
		}
		say("%s -> %s", name, keys(got))
	}
	switch sc.Kind {
	case "fn":
		fn := corpus.Fns[sc.K%len(corpus.Fns)]
		rec := &corpus.Rec{}
		b.Func(fn.Fn).Apply(fn.MkRepl(rec))
		for i := 0; i < 3; i++ {
			rec.Res = valuesFor(outs(fn.Type), code(sc, i)+9)
			args := valuesFor(ins(fn.Type, 0), code(sc, i))
			call(fn.Name+"/cb", func() []reflect.Value { return fn.Call(i%corpus.NumForms, args) })
			say("  callback saw %s (calls %d)", keys(rec.Args), rec.Calls)
		}
		if fn.Type.NumOut() > 0 {
			b.Func(fn.Fn).Return(ifaces(valuesFor(outs(fn.Type), code(sc, 5)))...)
			call(fn.Name+"/ret", func() []reflect.Value { return fn.Call(0, valuesFor(ins(fn.Type, 0), code(sc, 6))) })
		}
		b.Reset()
		call(fn.Name+"/reset", func() []reflect.Value { return fn.Call(0, valuesFor(ins(fn.Type, 0), code(sc, 7))) })
	case "variadic":
		w := b.Func(vfn).Return(-1, nil).When("a", 1, nil).Return(1, errors.New("one")).When(arg.Any(), arg.In("x", 2)).Return(2, nil).AndReturn(3, nil)
		_ = w
		for i := 0; i < 5; i++ {
			vals := [][]interface{}{{1, nil}, {"x"}, {2}, {}, {nil, nil, BadStringer{3}}}[int(code(sc, i)%5+5)%5]
			a := []string{"a", "b", ""}[int(code(sc, i+1)%3+3)%3]
			call(fmt.Sprintf("vfn(%q,%d variadic)", a, len(vals)), func() []reflect.Value {
				r0, r1 := vfn(a, vals...)
				return []reflect.Value{reflect.ValueOf(r0), box(r1)}
			})
		}
		var seen []int
		var shape string
		b.Func(vints).Apply(func(a int, s string, va ...int) int {
			seen = append([]int{a, len(s)}, va...)
			// the replacement sees exactly the caller's slice: nil-ness, capacity, and the same backing array
			shape = fmt.Sprintf("nil=%v len=%d cap=%d", va == nil, len(va), cap(va))
			if len(va) > 0 {
				va[0] += 1000
			}
			return 77
		})
		for i := 0; i < 4; i++ {
			backing := make([]int, 3, 8)
			copy(backing, []int{1, 2, 3})
			va := [][]int{nil, {1}, backing, backing[:0], {}}[int(code(sc, i)%5+5)%5]
			call("vints", func() []reflect.Value {
				return []reflect.Value{reflect.ValueOf(vints(int(code(sc, i)%100), "s", va...))}
			})
			say("  callback saw %v, %s; the caller's slice afterwards %v", seen, shape, va)
		}
	case "method":
		t := corpus.Types[sc.K%len(corpus.Types)]
		m := t.Methods[int(code(sc, 0)%int64(len(t.Methods))+int64(len(t.Methods)))%len(t.Methods)]
		if !t.Exported || !m.Exported {
			m = t.Methods[0]
		}
		if !t.Exported {
			t = corpus.Types[0]
			m = t.Methods[0]
		}
		argv := t.ValArg
		if m.Ptr {
			argv = t.PtrArg
		}
		rec := &corpus.Rec{}
		b.Struct(argv).Method(m.Name).Apply(m.MkRepl(rec))
		for i := 0; i < 2; i++ {
			rec.Res = valuesFor(outs(m.FuncType), code(sc, i)+3)
			args := valuesFor(ins(m.FuncType, 1), code(sc, i))
			call(t.Name+"."+m.Name+"/cb", func() []reflect.Value { return m.Call(i, args) })
			say("  callback saw %s", keys(rec.Args[1:]))
		}
		b.Struct(argv).Method(m.Name).Return(ifaces(valuesFor(outs(m.FuncType), code(sc, 4)))...)
		call(t.Name+"."+m.Name+"/ret", func() []reflect.Value { return m.Call(1, valuesFor(ins(m.FuncType, 1), code(sc, 5))) })
	case "iface":
		ii := corpus.Ifaces[sc.K%len(corpus.Ifaces)]
		ii.SetNil(0)
		defer ii.SetNil(0)
		for mi, m := range ii.Methods {
			if mi%2 == 0 {
				rec := &corpus.Rec{Res: valuesFor(outs(reflect.TypeOf(m.As)), code(sc, mi)+1)}
				b.Interface(ii.Var(0)).Method(m.Name).Apply(m.MkCb(rec))
				call(ii.Name+"."+m.Name+"/cb", func() []reflect.Value { return m.Call(0, valuesFor(ins(reflect.TypeOf(m.As), 1), code(sc, mi))) })
				say("  callback saw %s", keys(rec.Args))
			} else if mi%4 == 1 {
				b.Interface(ii.Var(0)).Method(m.Name).As(m.As).Return(ifaces(valuesFor(outs(reflect.TypeOf(m.As)), code(sc, mi)+2))...)
				call(ii.Name+"."+m.Name+"/ret", func() []reflect.Value { return m.Call(0, valuesFor(ins(reflect.TypeOf(m.As), 1), code(sc, mi))) })
			} else {
				call(ii.Name+"."+m.Name+"/unmocked", func() []reflect.Value { return m.Call(0, valuesFor(ins(reflect.TypeOf(m.As), 1), code(sc, mi))) })
			}
		}
	case "panic":
		fn := corpus.Fns[0]
		pvs := []interface{}{"boom", errors.New("err-boom"), 42, BadStringer{9}, nil, "panic-nil"}
		pv := pvs[int(code(sc, 0)%6+6)%6]
		b.Func(fn.Fn).Apply(func(x int) int {
			if pv == nil {
				var p *int
				return *p
			}
			if pv == "panic-nil" {
				panic(nil)
			}
			panic(pv)
		})
		call("F000/panicking-callback", func() []reflect.Value { return fn.Call(int(code(sc, 1)%3+3)%3, valuesFor(ins(fn.Type, 0), 3)) })
		// the same on a function without results
		b.Func(noResult).Apply(func(x int) {
			if pv == "panic-nil" {
				panic(nil)
			}
			if pv != nil {
				panic(pv)
			}
		})
		call("noResult/panicking-callback", func() []reflect.Value { noResult(3); return nil })
	case "hostile":
		var saw string
		b.Func(hostile).Apply(func(n *vkit.Node, e error, i interface{}, s fmt.Stringer, h hidden, big []int, pp **int) (error, interface{}, *vkit.Node) {
			saw = fmt.Sprintf("n=%v e-nil=%v i-nil=%v s-nil=%v big=%d pp-nil=%v", n != nil, e == nil, i == nil, s == nil, len(big), pp == nil)
			return e, i, n
		})
		for i := 0; i < 3; i++ {
			args := hostileArgs(code(sc, i))
			call("hostile/cb", func() []reflect.Value { return reflect.ValueOf(hostile).Call(args) })
			say("  callback saw %s", saw)
		}
		args := hostileArgs(code(sc, 3))
		b.Func(hostile).Return(args[1].Interface(), args[2].Interface(), args[0].Interface())
		call("hostile/ret", func() []reflect.Value { return reflect.ValueOf(hostile).Call(hostileArgs(code(sc, 4))) })
		b.Func(hostile).When(arg.Any(), nil, arg.Any(), arg.Any(), arg.Any(), arg.Any(), arg.Any()).Return(nil, BadStringer{4}, nil)
		call("hostile/when", func() []reflect.Value { return reflect.ValueOf(hostile).Call(hostileArgs(code(sc, 5))) })
	case "reapply":
		// the same live mocker applied again and again with sibling closures of one literal, bound method values and
		// reflect.MakeFunc callbacks (all share a code pointer), calls in between
		fn := corpus.Fns[0] // func(int) int
		f := fn.Fn.(func(int) int)
		mk := func(k int) func(int) int { return func(x int) int { return x + k } }
		for i := 0; i < 4; i++ {
			k := int(code(sc, i)%1000) + i*1000
			b.Func(fn.Fn).Apply(mk(k))
			call(fmt.Sprintf("F000/closure#%d", i), func() []reflect.Value { return []reflect.Value{reflect.ValueOf(f(1))} })
		}
		for i := 0; i < 3; i++ {
			o := &adder{k: int(code(sc, i+4)%1000) + i*7}
			b.Func(fn.Fn).Apply(o.add)
			call(fmt.Sprintf("F000/bound-method#%d", i), func() []reflect.Value { return []reflect.Value{reflect.ValueOf(f(2))} })
		}
		for i := 0; i < 3; i++ {
			k := int(code(sc, i+7) % 1000)
			cb := reflect.MakeFunc(fn.Type, func(a []reflect.Value) []reflect.Value { return []reflect.Value{reflect.ValueOf(int(a[0].Int()) * k)} }).Interface()
			b.Func(fn.Fn).Apply(cb)
			call(fmt.Sprintf("F000/makefunc#%d", i), func() []reflect.Value { return []reflect.Value{reflect.ValueOf(f(3))} })
		}
		// the same for a method mocker
		t := corpus.Types[0]
		m := t.Methods[0]
		argv := t.ValArg
		if m.Ptr {
			argv = t.PtrArg
		}
		for i := 0; i < 3; i++ {
			rec := &corpus.Rec{Res: valuesFor(outs(m.FuncType), code(sc, i)+int64(i)*31)}
			b.Struct(argv).Method(m.Name).Apply(m.MkRepl(rec))
			call(fmt.Sprintf("%s.%s/closure#%d", t.Name, m.Name, i), func() []reflect.Value { return m.Call(0, valuesFor(ins(m.FuncType, 1), 5)) })
		}
	case "origin":
		// a mock with an origin placeholder whose callback forwards to the placeholder: what is written into the placeholder and
		// what the forwarded call yields must not depend on the logging mode. The trampoline is validated statically before it is
		// executed (an unfaithful one is reported in the transcript and not run).
		zoo := corpus.Zoo
		fn := zoo[sc.K%len(zoo)]
		corpus.ZG, corpus.ZS, corpus.ZU = 0, "zoo", 3 // zoo bodies read and write these globals: every play starts from the same state
		e := reflect.ValueOf(fn.Fn).Pointer()
		f, ok1 := textImg.FuncAt(e)
		pf, ok2 := textImg.FuncAt(reflect.ValueOf(fn.Origin).Elem().Pointer())
		if !ok1 || !ok2 {
			say("origin: %s not in the image", fn.Name)
			break
		}
		rec := &corpus.Rec{}
		rec.Hook = func(a []reflect.Value) { rec.Res = fn.CallOrigin(a) }
		if pv := guard(func() { b.Func(fn.Fn).Origin(fn.Origin).Apply(fn.MkRepl(rec)) }); pv != nil {
			say("origin: %s refused", fn.Name)
			break
		}
		off := int(e - textImg.Addr)
		orig := textImg.Pristine[off : off+int(uintptr(f.End)-e)]
		tramp := vkit.Bytes(uintptr(pf.Entry), int(pf.End-pf.Entry))
		if _, _, verr := reloc.ValidateTrampoline(orig, uint64(e), tramp, uint64(pf.Entry), 13); verr != nil {
			say("origin: %s: trampoline in the placeholder is not a faithful relocation: %v", fn.Name, verr)
			break
		}
		for i := 0; i < 2; i++ {
			args := valuesFor(ins(fn.Type, 0), code(sc, i)%50)
			call("origin/"+fn.Name, func() []reflect.Value {
				var out []reflect.Value
				vkit.WithHeadroom(func() { out = fn.Call(corpus.FormDirect, args) })
				return out
			})
			say("  callback ran %d times", rec.Calls)
		}
	case "timenow":
		// time.Now is what the logger itself calls for every line: mocking it, in each of the documented ways, must neither recurse
		// nor behave differently with logging on
		date := time.Date(2020, 2, 3, 4, 5, 6, 0, time.UTC)
		ways := []string{"Func.Return", "Func.Apply", "Pkg(time).ExportFunc(Now).Apply", "Pkg(time).ExportFunc(Now).As.Return"}
		way := ways[sc.K%len(ways)]
		n := 0
		cb := func() time.Time {
			n++
			if n > 50 { // a runaway recursion is cut here so that it is reported, not a stack overflow
				mocker.CloseTrace()
				mocker.CloseDebug()
			}
			return date
		}
		var got time.Time
		pv := guard(func() {
			switch way {
			case "Func.Return":
				b.Func(time.Now).Return(date)
			case "Func.Apply":
				b.Func(time.Now).Apply(cb)
			case "Pkg(time).ExportFunc(Now).Apply":
				b.Pkg("time").ExportFunc("Now").Apply(cb)
			default:
				b.Pkg("time").ExportFunc("Now").As(func() time.Time { return time.Time{} }).Return(date)
			}
			got = time.Now()
			b.Reset()
		})
		if pv != nil {
			b.Reset()
			say("time.Now mocked by %s: panic %v", way, pv)
			break
		}
		// (the logger is itself a caller of time.Now, so with logging on the callback legitimately runs a few more times than the
		// program's one call; what is compared is the program's result and that the number of runs stays small)
		say("time.Now mocked by %s -> %v, callback runs bounded: %v", way, got.Equal(date), n <= 50)
	case "text":
		// long, multi-byte, invalid and control-character text as arguments and results (whatever the log does to render or
		// shorten it stays in the log)
		for i := 0; i < 3; i++ {
			in := textFor(code(sc, i) + int64(i))
			out := textFor(code(sc, i)*3 + 1)
			b.Func(textFn).Apply(func(s string, bs []byte, e error) (string, error) {
				return fmt.Sprintf("%d/%d/%s", len(s), len(bs), out), errors.New(out)
			})
			call(fmt.Sprintf("text/cb len=%d", len(in)), func() []reflect.Value {
				return reflect.ValueOf(textFn).Call([]reflect.Value{reflect.ValueOf(in), reflect.ValueOf([]byte(in)), reflect.ValueOf(errors.New(in)).Convert(reflect.TypeOf((*error)(nil)).Elem())})
			})
			b.Func(textFn).Return(out, nil)
			call("text/ret", func() []reflect.Value {
				return reflect.ValueOf(textFn).Call([]reflect.Value{reflect.ValueOf(in), reflect.ValueOf([]byte(nil)), reflect.Zero(reflect.TypeOf((*error)(nil)).Elem())})
			})
		}
	case "slices":
		// slices as arguments and results: what the caller's slices hold after the call, and what a Return stub hands out on
		// repeated calls, is part of the transcript (a renderer must not write to what it renders)
		for i := 0; i < 2; i++ {
			bs, is, ss := slicesFor(code(sc, i))
			rb, ri, _ := slicesFor(code(sc, i) + 5)
			var saw string
			b.Func(sliceFn).Apply(func(b []byte, n []int, s []string) ([]byte, []int) {
				saw = fmt.Sprintf("%x %v %q", b, n, s)
				return rb, ri
			})
			call(fmt.Sprintf("slices/cb len=%d,%d,%d", len(bs), len(is), len(ss)), func() []reflect.Value {
				r0, r1 := sliceFn(bs, is, ss)
				return []reflect.Value{reflect.ValueOf(r0), reflect.ValueOf(r1)}
			})
			say("  callback saw %s", saw)
			say("  the caller's slices afterwards %x %v %q; the callback's result slices afterwards %x %v", bs, is, ss, rb, ri)
			b.Func(sliceFn).Return(rb, ri)
			for k := 0; k < 3; k++ {
				call("slices/ret", func() []reflect.Value {
					r0, r1 := sliceFn(bs, is, ss)
					return []reflect.Value{reflect.ValueOf(r0), reflect.ValueOf(r1)}
				})
			}
			say("  after 3 stubbed calls: caller's %x %v %q; stubbed values %x %v", bs, is, ss, rb, ri)
		}
	case "hostile2":
		var saw string
		b.Func(hostile2).Apply(func(a [64]byte, bb [40]int, m map[string]interface{}, c chan int, f func(), u unsafe.Pointer, z complex128, w wide, e [0]int) ([64]byte, [40]int, wide) {
			saw = fmt.Sprintf("a63=%d b39=%d m=%d c-nil=%v f-nil=%v u-nil=%v z=%v w=%d/%d", a[63], bb[39], len(m), c == nil, f == nil, u == nil, z, w.X[32], w.Y[2][11])
			a[0]++
			return a, bb, w
		})
		for i := 0; i < 3; i++ {
			args := hostile2Args(code(sc, i))
			call("hostile2/cb", func() []reflect.Value { return reflect.ValueOf(hostile2).Call(args) })
			say("  callback saw %s", saw)
		}
		ra := hostile2Args(code(sc, 3))
		b.Func(hostile2).Return(ra[0].Interface(), ra[1].Interface(), ra[7].Interface())
		call("hostile2/ret", func() []reflect.Value { return reflect.ValueOf(hostile2).Call(hostile2Args(code(sc, 4))) })
		b.Func(hostile2).When(arg.Any(), ra[1].Interface(), arg.Any(), arg.Any(), arg.Any(), arg.Any(), arg.Any(), arg.Any(), arg.Any()).Return([64]byte{9}, [40]int{9}, wide{})
		call("hostile2/when-hit", func() []reflect.Value { return reflect.ValueOf(hostile2).Call(hostile2Args(code(sc, 3))) })
		call("hostile2/when-miss", func() []reflect.Value { return reflect.ValueOf(hostile2).Call(hostile2Args(code(sc, 3) + 1)) })
	}
	return tr
}

func setMode(m string) {
	mocker.CloseTrace()
	mocker.CloseDebug()
	switch m {
	case "debug":
		mocker.OpenDebug()
	case "trace":
		mocker.OpenTrace()
	}
}

func runScen(ci interface{}, s *vkit.Stats) error {
	sc := ci.(*scen)
	defer setMode("off")
	var base []string
	for _, mode := range []string{"off", "debug", "trace", "off"} {
		setMode(mode)
		var tr []string
		if pv := guard(func() { tr = play(sc) }); pv != nil {
			return fmt.Errorf("scenario %s/%d under logging mode %q panicked outside any call: %v", sc.Kind, sc.K, mode, pv)
		}
		if os.Getenv("VERIF_DUMP") != "" {
			fmt.Fprintf(os.Stderr, "---- transcript under %q\n%s\n", mode, strings.Join(tr, "\n"))
		}
		if base == nil {
			base = tr
			continue
		}
		if d := diff(base, tr); d != "" {
			return fmt.Errorf("scenario %s/%d: transcript under %q differs from logging off: %s", sc.Kind, sc.K, mode, d)
		}
	}
	// a child process started with GOOM_DEBUG set
	if len(sc.Codes) > 0 && sc.Codes[0]%8 == 0 {
		tr, err := child(sc)
		if err != nil {
			s.Exclude("child-with-GOOM_DEBUG-failed-to-run")
		} else if d := diff(base, tr); d != "" {
			return fmt.Errorf("scenario %s/%d: transcript in a process started with GOOM_DEBUG=1 differs from logging off: %s", sc.Kind, sc.K, d)
		} else {
			s.Class("compared-with-GOOM_DEBUG-child")
		}
	}
	s.Class("scenario/" + sc.Kind)
	for _, l := range base {
		if strings.Contains(l, "panic") {
			s.Class("transcripts-with-a-panic")
			break
		}
	}
	s.NonTrivial(fmt.Sprint(sc.Kind, sc.K, sc.Codes))
	s.Sample(map[string]interface{}{"scenario": sc, "transcript_head": head(base, 4)})
	return nil
}

func head(x []string, n int) []string {
	if len(x) > n {
		return x[:n]
	}
	return x
}

func diff(a, b []string) string {
	for i := 0; i < len(a) || i < len(b); i++ {
		var x, y string
		if i < len(a) {
			x = a[i]
		}
		if i < len(b) {
			y = b[i]
		}
		if x != y {
			return fmt.Sprintf("line %d: off=%q other=%q", i, x, y)
		}
	}
	return ""
}

func child(sc *scen) ([]string, error) {
	b, _ := json.Marshal(sc)
	cmd := exec.Command(os.Args[0], "-test.run", "^TestVerifC19Child$")
	cmd.Env = append(os.Environ(), "GOOM_DEBUG=1", "VERIF_C19_SCEN="+string(b), "VERIF_REPLAY=")
	out, err := cmd.Output()
	if err != nil {
		return nil, err
	}
	i := strings.Index(string(out), "C19TRANSCRIPT ")
	if i < 0 {
		return nil, fmt.Errorf("no transcript")
	}
	line := strings.SplitN(string(out)[i+len("C19TRANSCRIPT "):], "\n", 2)[0]
	var tr []string
	if err := json.Unmarshal([]byte(line), &tr); err != nil {
		return nil, err
	}
	return tr, nil
}

var realStdout = os.Stdout

func quiet() {
	if f, err := os.OpenFile(os.DevNull, os.O_WRONLY, 0); err == nil && os.Getenv("VERIF_VERBOSE") == "" {
		os.Stdout = f
	}
}

func TestVerifC19Child(t *testing.T) {
	js := os.Getenv("VERIF_C19_SCEN")
	if js == "" {
		return
	}
	quiet()
	var sc scen
	if err := json.Unmarshal([]byte(js), &sc); err != nil {
		t.Fatal(err)
	}
	tr := play(&sc)
	b, _ := json.Marshal(tr)
	fmt.Fprintf(realStdout, "\nC19TRANSCRIPT %s\n", b)
}

var textImg *vkit.TextImage

func TestVerifC19(t *testing.T) {
	quiet()
	textImg = vkit.SnapshotText()
	p := &vkit.Prop{ID: "C19", Unit: "scenarios", Journal: true, New: func() interface{} { return &scen{} },
		Gen: func(rt *rapid.T) interface{} {
			sc := &scen{Kind: rapid.SampledFrom([]string{"fn", "fn", "variadic", "method", "iface", "panic", "hostile", "hostile", "hostile2", "hostile2", "reapply", "reapply", "text", "text", "origin", "origin", "timenow", "slices", "slices"}).Draw(rt, "kind"),
				K: rapid.IntRange(0, 119).Draw(rt, "k")}
			n := rapid.IntRange(1, 6).Draw(rt, "ncodes")
			for i := 0; i < n; i++ {
				sc.Codes = append(sc.Codes, int64(vkit.ValueCode().Draw(rt, "code")))
			}
			return sc
		},
		Run: runScen}
	s := p.Main(t, vkit.Scale(400, 4000))
	if !vkit.Replaying() {
		s.Done()
	}
}
