//go:build go1.18 && linux
// +build go1.18,linux

// Package c10: symbol lookup by name yields the exact run-time address or an error (property C10).
package c10

import (
	"time"
	"debug/elf"
	"fmt"
	"os"
	"reflect"
	"runtime"
	"strings"
	"testing"
	"unsafe"

	"github.com/tencent/goom/internal/unexports2"
	"github.com/tencent/goom/zverif/vkit"
	"pgregory.net/rapid"
)

// harness-owned data symbols in every data section kind; their addresses are known independently (&v)
var (
	vData      = 12345                    // .noptrdata
	vDataPtr   = &vData                   // .data
	vBss       [64]byte                   // .noptrbss
	vBssPtr    map[string]int             // .bss
	VExported  = "exported"               // .data
	vStruct    = struct{ A, B int }{1, 2} // .noptrdata
	vIface     interface{} = 7
	vFunc      = func() int { return 1 }
	vSliceData = []int{1, 2, 3}
)

const self = "github.com/tencent/goom/zverif/c10."

func ownVars() map[string]uintptr {
	return map[string]uintptr{
		self + "vData": uintptr(unsafe.Pointer(&vData)), self + "vDataPtr": uintptr(unsafe.Pointer(&vDataPtr)),
		self + "vBss": uintptr(unsafe.Pointer(&vBss)), self + "vBssPtr": uintptr(unsafe.Pointer(&vBssPtr)),
		self + "VExported": uintptr(unsafe.Pointer(&VExported)), self + "vStruct": uintptr(unsafe.Pointer(&vStruct)),
		self + "vIface": uintptr(unsafe.Pointer(&vIface)), self + "vFunc": uintptr(unsafe.Pointer(&vFunc)),
		self + "vSliceData": uintptr(unsafe.Pointer(&vSliceData)),
	}
}

//go:noinline
func ownFuncA(x int) int { return x*3 + 1 }

//go:noinline
func ownFuncAB(x int) int { return x*5 + 2 }

type ownT struct{ v int }

//go:noinline
func (o *ownT) get() int { return o.v }

//go:noinline
func (o ownT) getV() int { return o.v + 1 }

type lookupCase struct {
	Kind string `json:"kind"` // func | var
	Name string `json:"name"`
}

type world struct {
	mode   string
	im     *vkit.Image
	slide  uint64
	funcs  map[string]uint64 // unique pclntab names -> link-time entry
	fdup   map[string]bool
	vars   map[string]uint64 // unique OBJECT symbols -> link-time value
	vdup   map[string]bool
	symFn  map[string]uint64 // .symtab FUNC symbols (cross-check)
	fnames []string
	vnames []string
	own    map[string]uintptr
}

var w *world

func loadWorld() *world {
	if w != nil {
		return w
	}
	im, err := vkit.LoadImage("/proc/self/exe")
	if err != nil {
		panic(err)
	}
	x := &world{mode: os.Getenv("VERIF_C10_MODE"), im: im, funcs: map[string]uint64{}, fdup: map[string]bool{}, vars: map[string]uint64{},
		vdup: map[string]bool{}, symFn: map[string]uint64{}, own: ownVars()}
	if x.mode == "" {
		x.mode = "default"
	}
	x.slide = slide()
	for _, f := range im.Funcs {
		if _, ok := x.funcs[f.Name]; ok {
			x.fdup[f.Name] = true
			continue
		}
		x.funcs[f.Name] = f.Entry
		x.fnames = append(x.fnames, f.Name)
	}
	// a name carried by several symbols (a C variable and an assembly function both called setg_gcc with external
	// linking, local symbols of different objects) has no single "address of that symbol"
	nameCount := map[string]int{}
	for _, s := range im.Symbols {
		nameCount[s.Name]++
	}
	for n, k := range nameCount {
		if k > 1 {
			x.vdup[n] = true
		}
	}
	for _, s := range im.Symbols {
		switch elf.ST_TYPE(s.Info) {
		case elf.STT_OBJECT:
			if s.Name == "" {
				continue
			}
			if v, ok := x.vars[s.Name]; ok && v != s.Value {
				x.vdup[s.Name] = true
				continue
			}
			if _, ok := x.vars[s.Name]; !ok {
				x.vnames = append(x.vnames, s.Name)
			}
			x.vars[s.Name] = s.Value
		case elf.STT_FUNC:
			x.symFn[s.Name] = s.Value
		}
	}
	w = x
	return x
}

// slide = run-time load address of the executable minus its link-time base (0 unless PIE)
func slide() uint64 {
	exe, _ := os.Readlink("/proc/self/exe")
	b, _ := os.ReadFile("/proc/self/maps")
	var first uint64
	found := false
	for _, l := range strings.Split(string(b), "\n") {
		if !strings.HasSuffix(l, exe) {
			continue
		}
		var lo, hi, off uint64
		var perm string
		if n, _ := fmt.Sscanf(l, "%x-%x %s %x", &lo, &hi, &perm, &off); n == 4 && off == 0 {
			first, found = lo, true
			break
		}
	}
	if !found {
		panic("executable mapping not found in /proc/self/maps")
	}
	f, err := elf.Open("/proc/self/exe")
	if err != nil {
		panic(err)
	}
	defer f.Close()
	for _, p := range f.Progs {
		if p.Type == elf.PT_LOAD && p.Off == 0 {
			return first - p.Vaddr
		}
	}
	panic("no PT_LOAD at file offset 0")
}

func find(kind, name string) (addr uintptr, err error, panicked interface{}) {
	defer func() {
		if r := recover(); r != nil {
			panicked = r
		}
	}()
	if kind == "func" {
		addr, err = unexports2.FindFuncByName(name)
	} else {
		addr, err = unexports2.FindVarByName(name)
	}
	return
}

// runLookup judges the same lookup twice in a row and once more after an unrelated successful lookup: the answer
// for a name must not depend on what was looked up before
func runLookup(ci interface{}, s *vkit.Stats) error {
	for round := 0; round < 3; round++ {
		if round == 2 {
			_, _, _ = find("func", self+"ownFuncA")
		}
		if err := runLookupOnce(ci, s, round); err != nil {
			if round > 0 {
				return fmt.Errorf("lookup #%d of the same name in a row: %v", round+1, err)
			}
			return err
		}
	}
	return nil
}

func runLookupOnce(ci interface{}, s *vkit.Stats, round int) error {
	c := ci.(*lookupCase)
	x := loadWorld()
	cls := func(n string) {
		if round == 0 {
			s.Class(n)
		}
	}
	exc := func(n string) {
		if round == 0 {
			s.Exclude(n)
		}
	}
	addr, err, pv := find(c.Kind, c.Name)
	if pv != nil {
		// only the documented "needs ldflags" cause may panic, and only when the table cannot be read
		if e, ok := pv.(error); ok && strings.Contains(strings.ToLower(e.Error()), "ldflags") && !strings.HasPrefix(x.mode, "default") {
			cls("documented-ldflags-panic")
			return nil
		}
		return fmt.Errorf("lookup of %s %q panicked: %v", c.Kind, c.Name, pv)
	}
	if c.Kind == "func" {
		want, present := x.funcs[c.Name]
		if x.fdup[c.Name] {
			exc("duplicate-function-name")
			return nil
		}
		if err != nil {
			if present && strings.HasPrefix(x.mode, "default") {
				return fmt.Errorf("function %q is in the binary (entry %#x) but lookup failed: %v", c.Name, want+x.slide, err)
			}
			cls("error-result")
			return nil
		}
		if !present {
			f := runtime.FuncForPC(addr)
			n := "<nothing>"
			if f != nil {
				n = f.Name()
			}
			return fmt.Errorf("absent function name %q resolved to %#x (%s)", c.Name, addr, n)
		}
		if uint64(addr) != want+x.slide {
			return fmt.Errorf("function %q: lookup gives %#x, pclntab entry + load slide is %#x", c.Name, addr, want+x.slide)
		}
		// independent sources: the runtime's own function table and the linker's .symtab
		rf := runtime.FuncForPC(addr)
		if rf == nil || rf.Entry() != addr {
			return fmt.Errorf("function %q: %#x is not the entry of a function known to the runtime", c.Name, addr)
		}
		if rn := rf.Name(); rn != "" && !strings.Contains(rn, "[...]") && !strings.Contains(c.Name, "[") && rn != c.Name {
			return fmt.Errorf("function %q: the runtime calls the function at %#x %q", c.Name, addr, rn)
		}
		if sv, ok := x.symFn[c.Name]; ok && sv+x.slide != uint64(addr) {
			return fmt.Errorf("function %q: lookup gives %#x, .symtab value + slide is %#x", c.Name, addr, sv+x.slide)
		}
		cls("exact-function")
		return nil
	}
	// variables
	want, present := x.vars[c.Name]
	if x.vdup[c.Name] {
		exc("duplicate-data-symbol-name")
		return nil
	}
	if err != nil {
		if present && strings.HasPrefix(x.mode, "default") {
			return fmt.Errorf("variable %q is in .symtab (%#x) but lookup failed: %v", c.Name, want+x.slide, err)
		}
		if own, ok := x.own[c.Name]; ok && strings.HasPrefix(x.mode, "default") {
			return fmt.Errorf("variable %q lives at %#x but lookup failed: %v", c.Name, own, err)
		}
		cls("error-result")
		return nil
	}
	if own, ok := x.own[c.Name]; ok {
		if addr != own {
			return fmt.Errorf("variable %q: lookup gives %#x, &variable is %#x", c.Name, addr, own)
		}
		cls("exact-own-variable")
		return nil
	}
	if !present {
		if _, isFn := x.symFn[c.Name]; isFn {
			// FindVarByName scans all of .symtab; a function symbol found by its exact name is that symbol's address
			if x.symFn[c.Name]+x.slide == uint64(addr) {
				cls("function-symbol-via-var-lookup")
				return nil
			}
		}
		for _, sy := range x.im.Symbols {
			if sy.Name == c.Name && sy.Value+x.slide == uint64(addr) {
				cls("other-symtab-symbol-exact")
				return nil
			}
		}
		return fmt.Errorf("absent variable name %q resolved to %#x", c.Name, addr)
	}
	if uint64(addr) != want+x.slide {
		return fmt.Errorf("variable %q: lookup gives %#x, .symtab value + load slide is %#x", c.Name, addr, want+x.slide)
	}
	cls("exact-variable")
	return nil
}

// near-miss names: one edit away from a real one
func mutateName(rt *rapid.T, name string) string {
	if name == "" {
		return "x"
	}
	b := []byte(name)
	switch rapid.IntRange(0, 8).Draw(rt, "edit") {
	case 0: // drop a character
		i := rapid.IntRange(0, len(b)-1).Draw(rt, "at")
		return string(append(append([]byte{}, b[:i]...), b[i+1:]...))
	case 1: // insert
		i := rapid.IntRange(0, len(b)).Draw(rt, "at")
		ch := rapid.SampledFrom([]byte("aeZ0_.*()/")).Draw(rt, "ch")
		return string(append(append(append([]byte{}, b[:i]...), ch), b[i:]...))
	case 2: // flip case / change a character
		i := rapid.IntRange(0, len(b)-1).Draw(rt, "at")
		if b[i] >= 'a' && b[i] <= 'z' {
			b[i] -= 32
		} else if b[i] >= 'A' && b[i] <= 'Z' {
			b[i] += 32
		} else {
			b[i] = 'q'
		}
		return string(b)
	case 3: // strip the package path
		if i := strings.LastIndex(name, "/"); i >= 0 {
			return name[i+1:]
		}
		return name[1:]
	case 4: // swap the package
		if i := strings.Index(name, "."); i >= 0 {
			return "fmt" + name[i:]
		}
		return "fmt." + name
	case 5: // pointer-receiver decoration
		if i := strings.LastIndex(name, "."); i >= 0 {
			return name[:i] + ".(*T)" + name[i:]
		}
		return "(*T)." + name
	case 6: // prefix of the name
		return name[:rapid.IntRange(1, len(name)).Draw(rt, "cut")]
	case 7: // name plus suffix
		return name + rapid.SampledFrom([]string{"0", ".func1", "-fm", " ", "x"}).Draw(rt, "suffix")
	default:
		return strings.ToUpper(name[:1]) + name[1:]
	}
}

func TestVerifC10(t *testing.T) {
	x := loadWorld()
	_ = ownFuncA(1) + ownFuncAB(2) + (&ownT{}).get() + ownT{}.getV() + vFunc() + len(vSliceData) + len(vBss) + len(vBssPtr) + *vDataPtr + vStruct.A
	_ = reflect.TypeOf(vIface)
	unit := func(n string) string { return n + "/" + x.mode }
	p := &vkit.Prop{ID: "C10", Unit: unit("lookup"), New: func() interface{} { return &lookupCase{} }, Run: runLookup}
	if vkit.Replaying() {
		p.Main(t, 0)
		return
	}
	// VERIF_C10_FIRST=table: the process first touches the symbol table through the package's other entry points, then
	// collections run (with time for finalizers), and only then names are looked up
	if os.Getenv("VERIF_C10_FIRST") == "table" {
		ts := vkit.NewStats("C10", unit("table-first"))
		fns, err := unexports2.AllFunctions()
		if err != nil || len(fns) == 0 {
			ts.Note("AllFunctions: %d names, error %v", len(fns), err)
		}
		if sym, err := unexports2.GetFunctionSymbol(ownFuncA); err != nil || sym == nil {
			ts.Note("GetFunctionSymbol(ownFuncA): %v", err)
		}
		for i := 0; i < 3; i++ {
			runtime.GC()
			time.Sleep(20 * time.Millisecond)
		}
		ts.Eval(1)
		ts.Class("symbol-table-touched-then-collections-before-the-first-lookup")
		ts.NonTrivial("table-first")
		ts.NonTrivial("table-first/gc")
		ts.Done()
	}
	// which kind of name the process looks up first is part of the input: VERIF_C10_FIRST=var starts with variables
	if os.Getenv("VERIF_C10_FIRST") == "var" {
		fs := vkit.NewStats("C10", unit("variable-lookup-first"))
		for _, n := range []string{self + "vData", self + "vBss", "no/such.variable"} {
			c := &lookupCase{Kind: "var", Name: n}
			fs.Eval(1)
			if err := p.SafeRun(c, fs); err != nil {
				fs.Violation(err.Error(), c)
				t.Fatalf("%v", err)
			}
			fs.NonTrivial("v1:" + n)
			fs.Sample(c)
		}
		fs.Class("first-lookup-of-the-process-is-a-variable")
		fs.Done()
	}
	// 1. every function of the binary
	s := vkit.NewStats("C10", unit("all-functions"))
	s.Note("mode %s: %d functions (%d unique names), %d data symbols, load slide %#x, .symtab entries %d", x.mode, len(x.im.Funcs), len(x.fnames), len(x.vnames), x.slide, len(x.im.Symbols))
	sh, nsh := vkit.Shard()
	for i, name := range x.fnames {
		if i%nsh != sh {
			continue
		}
		c := &lookupCase{Kind: "func", Name: name}
		s.Eval(1)
		if err := p.SafeRun(c, s); err != nil {
			s.Violation(err.Error(), c)
			t.Fatalf("%v", err)
		}
		s.NonTrivial("f:" + name)
		if i%997 == 0 {
			s.Sample(c)
		}
	}
	for _, n := range []string{self + "ownFuncA", self + "ownFuncAB", self + "(*ownT).get", self + "ownT.getV"} {
		if _, ok := x.funcs[n]; !ok {
			t.Fatalf("harness function %s missing from pclntab", n)
		}
	}
	s.Done()
	// 2. every data symbol
	s = vkit.NewStats("C10", unit("all-variables"))
	names := append([]string{}, x.vnames...)
	for n := range x.own {
		if _, ok := x.vars[n]; !ok {
			names = append(names, n)
		}
	}
	step := 1
	if !vkit.Thorough() && len(names) > 6000 {
		step = len(names)/6000 + 1
	}
	for i, name := range names {
		_, own := x.own[name]
		if !own && (i%step != 0 || (i/step)%nsh != sh) {
			continue
		}
		c := &lookupCase{Kind: "var", Name: name}
		s.Eval(1)
		if err := p.SafeRun(c, s); err != nil {
			s.Violation(err.Error(), c)
			t.Fatalf("%v", err)
		}
		s.NonTrivial("v:" + name)
		if i%1499 == 0 || own {
			s.Sample(c)
		}
	}
	s.Done()
	// 3. absent and near-miss names
	all := append(append([]string{}, x.fnames...), names...)
	nm := &vkit.Prop{ID: "C10", Unit: unit("lookup"), New: func() interface{} { return &lookupCase{} },
		Gen: func(rt *rapid.T) interface{} {
			base := all[rapid.IntRange(0, len(all)-1).Draw(rt, "base")]
			if rapid.IntRange(0, 9).Draw(rt, "own") == 0 {
				base = rapid.SampledFrom([]string{self + "ownFuncA", self + "ownFuncAB", self + "(*ownT).get", self + "vData", self + "vBss"}).Draw(rt, "ownname")
			}
			name := mutateName(rt, base)
			if rapid.IntRange(0, 19).Draw(rt, "fresh") == 0 {
				name = rapid.StringMatching(`[a-z]{1,8}(/[a-z]{1,6})?\.[A-Za-z]{1,10}`).Draw(rt, "freshname")
			}
			return &lookupCase{Kind: rapid.SampledFrom([]string{"func", "var"}).Draw(rt, "kind"), Name: name}
		},
		Run: func(ci interface{}, st *vkit.Stats) error {
			c := ci.(*lookupCase)
			if err := runLookup(ci, st); err != nil {
				return err
			}
			st.NonTrivial(c.Kind + ":" + c.Name)
			st.Sample(c)
			return nil
		}}
	ns := nm.Main(t, vkit.Scale(1500, 40000))
	ns.Done()
}
