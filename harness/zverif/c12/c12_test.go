//go:build go1.18 && amd64
// +build go1.18,amd64

// Package c12: within a builder the most recent instruction for a target wins (property C12).
package c12

import (
	"fmt"
	"os"
	"strings"
	"testing"

	mocker "github.com/tencent/goom"
	"github.com/tencent/goom/arg"
	"github.com/tencent/goom/zverif/corpus"
	"github.com/tencent/goom/zverif/corpusb"
	"github.com/tencent/goom/zverif/vkit"
	"pgregory.net/rapid"
)

//go:noinline
func fA(x int) int { return x*10 + 1 }

//go:noinline
func fB(x int) int { return x*10 + 2 }

//go:noinline
func fC(x int) int { return x*10 + 3 }

//go:noinline
func fD(x int) int { return x*10 + 9 } // only the distractor builder touches it

// M carries two methods.
type M struct{ k int }

//go:noinline
func (m *M) A(x int) int { return x*10 + 4 }

//go:noinline
func (m *M) B(x int) int { return x*10 + 5 }

// IF is the interface under test.
type IF interface {
	P(x int) int
	Q(x int) int
}

var ifv IF
var gv = 777

var asP = func(ctx *mocker.IContext, x int) (r int) { vkit.Sink(1); return }

type histCase struct {
	Ops []vkit.Op `json:"ops"`
}

// targets: 0..2 functions, 3..4 methods, 5..6 interface methods, 7 variable, 8 a function addressed by name only,
// 9 an unexported method addressed by name only
const nT = 12

var tnames = []string{"fA", "fB", "fC", "(*M).A", "(*M).B", "IF.P", "IF.Q", "var gv", "fE (by name)", "(*M).c (by name)", "corpusb.pf (Pkg by name)", "corpusb.(*t08).mul (Pkg by name)"}

//go:noinline
func fE(x int) int { return x*10 + 6 }

//go:noinline
func (m *M) c(x int) int { return x*10 + 7 }

var asFunc = func(x int) (r int) { vkit.Sink(2); return }
var asMeth = func(m *M, x int) (r int) { vkit.Sink(3); return }

type clause struct {
	x   int
	seq []int
	cur int
}

type tstate struct {
	kind    string // "" | cb | stub
	cb      int
	def     []int
	defCur  int
	hasDef  bool
	clauses []*clause
	afterWhen bool // the last instruction of the live stub configuration was a When clause
}

func guard(f func()) (pv interface{}) {
	defer func() { pv = recover() }()
	f()
	return nil
}

func orig(t, x int) int {
	return x*10 + map[int]int{0: 1, 1: 2, 2: 3, 3: 4, 4: 5, 8: 6, 9: 7, 10: 8, 11: 9}[t]
}

func callT(t, x int) (r int, pv interface{}) {
	pv = guard(func() {
		switch t {
		case 0:
			r = fA(x)
		case 1:
			r = fB(x)
		case 2:
			r = fC(x)
		case 3:
			r = (&M{}).A(x)
		case 4:
			r = (&M{k: 3}).B(x)
		case 5:
			r = ifv.P(x)
		case 6:
			r = ifv.Q(x)
		case 8:
			r = fE(x)
		case 9:
			r = (&M{k: 1}).c(x)
		case 10:
			r = corpusb.CallPF(x)
		case 11:
			r = corpusb.CallT08Mul(x)
		}
	})
	return
}

// kept handles: the object a lookup returned earlier, used again later (also after Cancel/Reset)
var keptEm = map[int]mocker.ExportedMocker{}
var useKept bool
var keptUsed int

// em returns the exported-mocker handle for target t: looked up afresh (that is the point of the property) or,
// for some instructions, the object an earlier lookup returned
func em(b *mocker.Builder, t int) mocker.ExportedMocker {
	if m, ok := keptEm[t]; ok && useKept && t <= 4 {
		keptUsed++
		return m
	}
	m := emFresh(b, t)
	if t <= 4 {
		keptEm[t] = m
	}
	return m
}

func emFresh(b *mocker.Builder, t int) mocker.ExportedMocker {
	switch t {
	case 0:
		return b.Func(fA)
	case 1:
		return b.Func(fB)
	case 2:
		return b.Func(fC)
	case 3:
		return b.Struct(&M{}).Method("A")
	case 4:
		return b.Struct(&M{}).Method("B")
	case 5:
		return b.Interface(&ifv).Method("P").As(asP)
	case 8:
		return b.ExportFunc("fE").As(asFunc)
	case 9:
		return b.Struct(&M{}).ExportMethod("c").As(asMeth)
	case 10:
		return b.Pkg(corpusb.PkgPath).ExportFunc("pf").As(corpusb.AsPF)
	case 11:
		return b.Pkg(corpusb.PkgPath).ExportStruct("*t08").Method("mul").As(corpusb.AsT08Mul)
	default:
		return b.Interface(&ifv).Method("Q").As(asP)
	}
}

// canceller returns the handle whose Cancel undoes target t
func canceller(b *mocker.Builder, t int) mocker.Mocker {
	switch t {
	case 8:
		return b.ExportFunc("fE")
	case 9:
		return b.Struct(&M{}).ExportMethod("c")
	case 10:
		return b.Pkg(corpusb.PkgPath).ExportFunc("pf")
	case 11:
		return b.Pkg(corpusb.PkgPath).ExportStruct("*t08").Method("mul")
	}
	return em(b, t)
}

func applyCb(b *mocker.Builder, t int, c int) {
	switch {
	case t <= 2:
		em(b, t).Apply(func(x int) int { return c })
	case t <= 4:
		em(b, t).Apply(func(m *M, x int) int { return c })
	case t == 5:
		b.Interface(&ifv).Method("P").Apply(func(ctx *mocker.IContext, x int) int { return c })
	case t == 8:
		b.ExportFunc("fE").Apply(func(x int) int { return c })
	case t == 9:
		b.Struct(&M{}).ExportMethod("c").Apply(func(m *M, x int) int { return c })
	case t == 10:
		b.Pkg(corpusb.PkgPath).ExportFunc("pf").Apply(func(x int) int { return c })
	case t == 11:
		b.Pkg(corpusb.PkgPath).ExportStruct("*t08").Method("mul").Apply(corpusb.MkT08MulCb(c))
	default:
		b.Interface(&ifv).Method("Q").Apply(func(ctx *mocker.IContext, x int) int { return c })
	}
}

func runHist(ci interface{}, s *vkit.Stats) error {
	c := ci.(*histCase)
	ifv = nil
	gv = 777
	keptEm = map[int]mocker.ExportedMocker{}
	keptUsed = 0
	b := mocker.Create()
	other := mocker.Create()
	defer func() { b.Reset(); other.Reset(); ifv = nil; gv = 777 }()
	st := make([]*tstate, nT)
	for i := range st {
		st[i] = &tstate{}
	}
	ifMocked := false
	varMocked, varOrig, varCur := false, 777, 777
	alternations := map[int]int{}
	lastKind := map[int]string{}
	var fp []string
	note := func(t int, k string) {
		if lastKind[t] != "" && lastKind[t] != k {
			alternations[t]++
		}
		lastKind[t] = k
	}
	checkCall := func(step, t, x int) error {
		ts := st[t]
		if (t == 5 || t == 6) && !ifMocked {
			return nil // nil interface variable
		}
		if t == 7 {
			return nil
		}
		got, pv := callT(t, x)
		where := fmt.Sprintf("step %d: call %s(%d)", step, tnames[t], x)
		switch ts.kind {
		case "":
			if t == 5 || t == 6 {
				if pv == nil || !strings.Contains(fmt.Sprint(pv), "method not implements") {
					return fmt.Errorf("%s: method is not mocked (variable is): got %d / panic %v, want the 'method not implements' panic", where, got, pv)
				}
				return nil
			}
			if pv != nil || got != orig(t, x) {
				return fmt.Errorf("%s: the target is not mocked at this point: got %d (panic %v), the original returns %d", where, got, pv, orig(t, x))
			}
		case "cb":
			if pv != nil || got != ts.cb {
				return fmt.Errorf("%s: the most recent instruction is Apply(callback returning %d): got %d (panic %v)", where, ts.cb, got, pv)
			}
		case "stub":
			want, ok := 0, false
			for _, cl := range ts.clauses {
				if cl.x == x {
					i := cl.cur
					if i >= len(cl.seq) {
						i = len(cl.seq) - 1
					}
					want, ok = cl.seq[i], true
					if len(cl.seq) > 1 {
						cl.cur++
					}
					break
				}
			}
			if !ok && ts.hasDef {
				i := ts.defCur
				if i >= len(ts.def) {
					i = len(ts.def) - 1
				}
				want, ok = ts.def[i], true
				if len(ts.def) > 1 {
					ts.defCur++
				}
			}
			if !ok {
				if pv == nil || !strings.Contains(fmt.Sprint(pv), "no suitable condition") {
					return fmt.Errorf("%s: stub configuration without a matching condition or default: got %d (panic %v), want the 'no suitable condition' panic", where, got, pv)
				}
				return nil
			}
			if pv != nil || got != want {
				return fmt.Errorf("%s: the live stub configuration (default %v, %d clauses) yields %d: got %d (panic %v)", where, ts.def, len(ts.clauses), want, got, pv)
			}
		}
		return nil
	}
	for step, op := range c.Ops {
		for len(op.I) < 3 {
			op.I = append(op.I, 0)
		}
		t := vkit.Pick(op.I[0], nT)
		v := 1000 + step*10 + vkit.Pick(op.I[1], 7)
		x := vkit.Pick(op.I[2], 4)
		ts := st[t]
		var pv interface{}
		useKept = len(op.I) > 3 && vkit.Pick(op.I[3], 3) == 0
		switch op.K {
		case "apply":
			if t == 7 {
				pv = guard(func() { b.Var(&gv).Apply(func() int { return v }) })
				if !varMocked {
					varOrig = varCur
				}
				varMocked, varCur = true, v
				break
			}
			pv = guard(func() { applyCb(b, t, v) })
			*ts = tstate{kind: "cb", cb: v}
			if t == 5 || t == 6 {
				ifMocked = true
			}
			note(t, "cb")
			fp = append(fp, fmt.Sprintf("a%d", t))
		case "ret":
			if t == 7 {
				pv = guard(func() { b.Var(&gv).Set(v) })
				if !varMocked {
					varOrig = varCur
				}
				varMocked, varCur = true, v
				break
			}
			if ts.kind == "stub" && ts.afterWhen {
				// a bare Return directly after a When clause attaches to that clause in goom; no property fixes
				// its meaning (DESIGN 5.3): not generated
				s.Exclude("bare-Return-directly-after-a-When-clause")
				continue
			}
			if ts.kind == "stub" && ts.hasDef {
				// two bare Returns on one default: goom turns them into a sequence; no property fixes the meaning (DESIGN 5.3)
				s.Exclude("second-bare-Return-on-an-existing-default")
				continue
			}
			pv = guard(func() { em(b, t).Return(v) })
			if ts.kind == "stub" {
				if ts.hasDef {
					ts.def = append(ts.def, v)
				} else {
					ts.def, ts.hasDef = []int{v}, true
				}
			} else {
				*ts = tstate{kind: "stub", def: []int{v}, hasDef: true}
			}
			if t == 5 || t == 6 {
				ifMocked = true
			}
			note(t, "stub")
			fp = append(fp, fmt.Sprintf("r%d", t))
		case "when":
			if t == 7 {
				continue
			}
			pv = guard(func() {
				if t == 9 || t == 11 {
					// an unexported method exported with As(func(recv, args...)) is a plain function for the matcher: the
					// receiver is its first parameter
					em(b, t).When(arg.Any(), x).Return(v)
				} else {
					em(b, t).When(x).Return(v)
				}
			})
			if ts.kind != "stub" {
				*ts = tstate{kind: "stub"}
			}
			ts.clauses = append(ts.clauses, &clause{x: x, seq: []int{v}})
			ts.afterWhen = true
			if t == 5 || t == 6 {
				ifMocked = true
			}
			note(t, "stub")
			fp = append(fp, fmt.Sprintf("w%d", t))
		case "cancel":
			switch {
			case t == 7:
				pv = guard(func() { b.Var(&gv).Cancel() })
				if varMocked {
					varMocked, varCur = false, varOrig
				}
			case t == 5 || t == 6:
				pv = guard(func() { em(b, t).Cancel() })
				if ifMocked && (st[5].kind != "" || st[6].kind != "") && st[t].kind != "" {
					// cancelling a mocked interface method puts back the whole variable
					ifMocked = false
					*st[5], *st[6] = tstate{}, tstate{}
					lastKind[5], lastKind[6] = "", ""
				} else if st[t].kind == "" {
					// a handle that never applied anything: nothing to cancel
					s.Class("cancel-of-unapplied-interface-method")
				}
			default:
				pv = guard(func() { canceller(b, t).Cancel() })
				*ts = tstate{}
				lastKind[t] = ""
			}
			fp = append(fp, fmt.Sprintf("c%d", t))
		case "reset":
			pv = guard(func() { b.Reset() })
			for i := range st {
				*st[i] = tstate{}
			}
			lastKind = map[int]string{}
			ifMocked = false
			if varMocked {
				varMocked, varCur = false, varOrig
			}
			fp = append(fp, "R")
		case "badstub":
			// an interface-method stub goom refuses (the As signature has a parameter too many) is not an instruction: whatever
			// was in force stays in force, and the next well-formed instruction takes effect as usual
			if t != 5 && t != 6 {
				continue
			}
			name := "P"
			if t == 6 {
				name = "Q"
			}
			bad := func(ctx *mocker.IContext, x int, extra int) (r int) { return }
			if rpv := guard(func() { b.Interface(&ifv).Method(name).As(bad).Return(v) }); rpv == nil {
				s.Exclude("ill-formed-interface-stub-was-accepted(property C13 judges that)")
				return nil
			}
			s.Class("refused-interface-stub-between-instructions")
			fp = append(fp, fmt.Sprintf("b%d", t))
		case "gc":
			// the most recent instruction keeps deciding after a collection (superseded stubs and callbacks may go, the live ones not)
			vkit.GC()
			vkit.ChurnSmall(20000)
			s.Class("gc-between-instructions")
			fp = append(fp, "g")
		case "other":
			// the distractor builder works on its own target only
			pv = guard(func() {
				if v%2 == 0 {
					other.Func(fD).Return(v)
				} else {
					other.Reset()
				}
			})
		case "call":
			if t == 7 {
				break
			}
			if err := checkCall(step, t, x); err != nil {
				return err
			}
		}
		if pv != nil {
			return fmt.Errorf("step %d: %s on %s panicked: %v", step, op.K, tnames[t], pv)
		}
		if gv != varCur {
			return fmt.Errorf("step %d (%s %s): variable gv holds %d, must hold %d", step, op.K, tnames[t], gv, varCur)
		}
		// after every instruction, every target behaves according to its most recent instruction
		if op.K != "call" {
			for _, tt := range []int{0, 1, 2, 3, 4, 5, 6, 8, 9, 10, 11} {
				if err := checkCall(step, tt, (x+tt)%4); err != nil {
					return fmt.Errorf("after %s on %s: %v", op.K, tnames[t], err)
				}
			}
		}
	}
	nt := false
	for _, n := range alternations {
		if n >= 2 {
			nt = true
			s.Class("target-with->=2-callback/stub-alternations")
		}
	}
	if keptUsed > 0 {
		s.Class("history-with-instructions-through-kept-handles")
	}
	if nt {
		s.NonTrivial(strings.Join(fp, ""))
	}
	s.Sample(c)
	return nil
}

var opGen = vkit.OpGen([]string{"apply", "ret", "when", "call", "cancel", "reset", "other", "gc", "badstub"}, []int{5, 5, 3, 6, 2, 1, 1, 1, 2}, 4)

func quiet() {
	if f, err := os.OpenFile(os.DevNull, os.O_WRONLY, 0); err == nil && os.Getenv("VERIF_VERBOSE") == "" {
		os.Stdout = f
	}
}

func TestVerifC12(t *testing.T) {
	quiet()
	p := &vkit.Prop{ID: "C12", Unit: "histories", Journal: true, New: func() interface{} { return &histCase{} },
		Gen: func(rt *rapid.T) interface{} {
			ops := rapid.SliceOfN(opGen, 2, 20).Draw(rt, "ops")
			// concentrate a history on two targets so that alternations happen
			// pairs that belong together get extra weight: the two methods of the interface variable, the two methods of M
			pairs := [][2]int64{{5, 6}, {5, 6}, {3, 4}, {0, 1}, {0, 7}, {2, 5}, {6, 3}, {8, 9}, {8, 0}, {9, 3}, {10, 11}, {10, 8}, {11, 9}, {10, 0}}
			t0 := int64(rapid.IntRange(0, nT-1).Draw(rt, "t0"))
			t1 := int64(rapid.IntRange(0, nT-1).Draw(rt, "t1"))
			if rapid.Bool().Draw(rt, "paired") {
				pr := rapid.SampledFrom(pairs).Draw(rt, "pair")
				t0, t1 = pr[0], pr[1]
			}
			for i := range ops {
				if vkit.Pick(ops[i].I[0], 4) != 0 {
					if vkit.Pick(ops[i].I[0], 2) == 0 {
						ops[i].I[0] = t0
					} else {
						ops[i].I[0] = t1
					}
				}
			}
			return &histCase{Ops: ops}
		},
		Run: runHist}
	s := p.Main(t, vkit.Scale(2500, 40000))
	if vkit.Replaying() {
		return
	}
	// Pkg applies to the next lookup only
	func() {
		b := mocker.Create()
		defer b.Reset()
		s.Eval(1)
		b.Pkg(corpus.PkgPath)
		if b.PkgName() != corpus.PkgPath {
			s.Violation("Pkg(p) did not set the package for the next lookup", map[string]string{"probe": "pkg"})
			t.Errorf("Pkg not set")
			return
		}
		pv := guard(func() { b.ExportFunc("F000").Apply(func(int) int { return 4242 }) })
		r := corpus.Fns[0].Fn.(func(int) int)(1)
		if pv != nil || r != 4242 {
			s.Violation(fmt.Sprintf("Pkg(corpus).ExportFunc(\"F000\") did not mock corpus.F000: panic %v, result %d", pv, r), map[string]string{"probe": "pkg"})
			t.Errorf("Pkg lookup failed")
			return
		}
		if strings.HasSuffix(b.PkgName(), "/corpus") {
			s.Violation("after one lookup the package override is still in effect: "+b.PkgName(), map[string]string{"probe": "pkg"})
			t.Errorf("Pkg sticky")
			return
		}
		// the next lookup resolves against the current package again: no F001 here, so it must fail rather than hit corpus.F001
		pv = guard(func() { b.ExportFunc("F001").Apply(func(string) (string, error) { return "mocked", nil }) })
		r1, _ := corpus.Fns[1].Fn.(func(string) (string, error))("x")
		if pv == nil || r1 == "mocked" {
			s.Violation(fmt.Sprintf("a lookup after the Pkg-lookup still resolved in the overridden package (panic %v, corpus.F001 returns %q)", pv, r1), map[string]string{"probe": "pkg"})
			t.Errorf("Pkg override leaked")
			return
		}
		// a Func lookup also consumes the override
		b.Pkg(corpus.PkgPath)
		b.Func(fD)
		if strings.HasSuffix(b.PkgName(), "/corpus") {
			s.Violation("a Func lookup does not consume the Pkg override", map[string]string{"probe": "pkg"})
			t.Errorf("Pkg not consumed by Func")
			return
		}
		s.Class("pkg-override-next-lookup-only")
	}()
	s.Done()
}
