//go:build go1.18
// +build go1.18

// Package x86eval is the small symbolic evaluator of DESIGN.md 2.5: it decodes
// an emitted jump sequence with the reference decoder and says where control
// goes and what the context register holds.
package x86eval

import (
	"fmt"

	refx86 "github.com/tencent/goom/zverif/refx86"
)

// Result is the meaning of an emitted jump sequence.
type Result struct {
	Nop      bool   // sequence starts with a one-byte NOP
	Kind     string // "abs": MOV reg,imm ; JMP [reg]   "rel": JMP rel32
	Reg      refx86.Reg
	RegValue uint64 // value loaded into Reg (abs)
	Target   uint64 // branch target (rel)
	Len      int    // bytes consumed; must equal len(code)
}

// EvalJump interprets code placed at address `at`.
func EvalJump(code []byte, mode int, at uint64) (Result, error) {
	var r Result
	pos := 0
	dec := func() (refx86.Inst, error) {
		if pos >= len(code) {
			return refx86.Inst{}, fmt.Errorf("sequence ends at %d before a branch", pos)
		}
		in, err := refx86.Decode(code[pos:], mode)
		if err != nil {
			return in, fmt.Errorf("undecodable at %d: %v", pos, err)
		}
		return in, nil
	}
	in, err := dec()
	if err != nil {
		return r, err
	}
	if in.Op == refx86.NOP && in.Len == 1 {
		r.Nop = true
		pos += in.Len
		if in, err = dec(); err != nil {
			return r, err
		}
	}
	switch in.Op {
	case refx86.JMP:
		rel, ok := in.Args[0].(refx86.Rel)
		if !ok {
			return r, fmt.Errorf("first instruction is JMP %v, not a relative jump", in.Args[0])
		}
		r.Kind = "rel"
		r.Target = at + uint64(pos) + uint64(in.Len) + uint64(int64(rel))
		pos += in.Len
	case refx86.MOV:
		reg, ok := in.Args[0].(refx86.Reg)
		if !ok {
			return r, fmt.Errorf("MOV destination %v is not a register", in.Args[0])
		}
		imm, ok := in.Args[1].(refx86.Imm)
		if !ok {
			return r, fmt.Errorf("MOV source %v is not an immediate", in.Args[1])
		}
		r.Kind = "abs"
		r.Reg = reg
		r.RegValue = uint64(imm)
		if mode == 32 {
			r.RegValue &= 0xffffffff
		}
		pos += in.Len
		j, err := dec()
		if err != nil {
			return r, err
		}
		if j.Op != refx86.JMP {
			return r, fmt.Errorf("second instruction is %v, not JMP", j.Op)
		}
		m, ok := j.Args[0].(refx86.Mem)
		if !ok {
			return r, fmt.Errorf("JMP operand %v is not memory", j.Args[0])
		}
		if m.Base != reg || m.Index != 0 || m.Disp != 0 || m.Segment != 0 {
			return r, fmt.Errorf("JMP goes through %v, not through [%v]", m, reg)
		}
		pos += j.Len
	default:
		return r, fmt.Errorf("unexpected first instruction %v", in)
	}
	r.Len = pos
	if pos != len(code) {
		return r, fmt.Errorf("sequence has %d bytes but the jump ends after %d", len(code), pos)
	}
	return r, nil
}
