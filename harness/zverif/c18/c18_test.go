//go:build go1.18
// +build go1.18

// Package c18: argument expressions form a consistent predicate algebra (property C18).
package c18

import (
	"fmt"
	"math"
	"reflect"
	"testing"

	mocker "github.com/tencent/goom"
	"github.com/tencent/goom/arg"
	"github.com/tencent/goom/zverif/vkit"
	"pgregory.net/rapid"
)

type fstruct struct {
	F float64
	S []float64
	M map[string]float32
}

type nested struct {
	A vkit.Small
	P *vkit.Small
	L []vkit.Small
	I interface{}
}

// comparable composites whose Go == differs from deep equality (pointer fields compare by address under ==) or panics when hashed
// (an interface field holding a slice or map)
type ptrField struct {
	P *int
	N int
}
type ifaceField struct {
	I interface{}
	N int8
}

var types = []reflect.Type{
	reflect.TypeOf(ptrField{}), reflect.TypeOf(ifaceField{}), reflect.TypeOf([2]*int{}), reflect.TypeOf([1]interface{}{}),
	reflect.TypeOf(int(0)), reflect.TypeOf(int8(0)), reflect.TypeOf(int16(0)), reflect.TypeOf(int32(0)), reflect.TypeOf(int64(0)),
	reflect.TypeOf(uint(0)), reflect.TypeOf(uint8(0)), reflect.TypeOf(uint16(0)), reflect.TypeOf(uint32(0)), reflect.TypeOf(uint64(0)),
	reflect.TypeOf(uintptr(0)), reflect.TypeOf(float32(0)), reflect.TypeOf(float64(0)), reflect.TypeOf(""), reflect.TypeOf(true),
	reflect.TypeOf(vkit.Small{}), reflect.TypeOf(vkit.WithUnexported{}), reflect.TypeOf(fstruct{}), reflect.TypeOf(nested{}),
	reflect.TypeOf([2]int{}), reflect.TypeOf([3]string{}), reflect.TypeOf([2]vkit.Small{}),
	reflect.TypeOf([]int(nil)), reflect.TypeOf([]string(nil)), reflect.TypeOf([]vkit.Small(nil)), reflect.TypeOf([][]int(nil)), reflect.TypeOf([]byte(nil)),
	reflect.TypeOf(map[string]int(nil)), reflect.TypeOf(map[int]vkit.Small(nil)), reflect.TypeOf(map[string][]int(nil)),
	reflect.TypeOf((*int)(nil)), reflect.TypeOf((*vkit.Small)(nil)), reflect.TypeOf((**int)(nil)), reflect.TypeOf((*float64)(nil)),
	reflect.TypeOf((*string)(nil)), reflect.TypeOf((*[]int)(nil)), reflect.TypeOf((*vkit.Node)(nil)), reflect.TypeOf((*bool)(nil)),
	reflect.TypeOf((*interface{})(nil)).Elem(), reflect.TypeOf((*error)(nil)).Elem(),
	reflect.TypeOf(func() {}), reflect.TypeOf(func(int) int { return 0 }), reflect.TypeOf(func(string) error { return nil }),
}

var typeIdx = func() []int {
	r := make([]int, len(types))
	for i := range r {
		r[i] = i
	}
	return r
}()

type pairCase struct {
	T      int      `json:"type"`
	TName  string   `json:"type_name"`
	X      uint64   `json:"x"`
	Y      uint64   `json:"y"`
	Rel    string   `json:"rel"` // indep | copy | same
	NilPat bool     `json:"untyped_nil_pattern"`
	In     []uint64 `json:"in"`
}

func nilable(k reflect.Kind) bool {
	switch k {
	case reflect.Ptr, reflect.Interface, reflect.Slice, reflect.Map, reflect.Chan, reflect.Func:
		return true
	}
	return false
}

// oracle: Go equality as the property states it. judged=false where the statement is silent.
func oracle(x, y reflect.Value, depth int) (eq bool, judged bool) {
	switch x.Kind() {
	case reflect.Bool, reflect.String,
		reflect.Int, reflect.Int8, reflect.Int16, reflect.Int32, reflect.Int64,
		reflect.Uint, reflect.Uint8, reflect.Uint16, reflect.Uint32, reflect.Uint64, reflect.Uintptr:
		return x.Interface() == y.Interface(), true
	case reflect.Float32, reflect.Float64:
		a, b := x.Float(), y.Float()
		if math.IsNaN(a) || math.IsNaN(b) {
			return false, false // not "ordinary"
		}
		if a == 0 && b == 0 && math.Signbit(a) != math.Signbit(b) {
			return false, false // mixed signed zeros: not "ordinary"
		}
		return a == b, true
	case reflect.Struct, reflect.Array:
		return reflect.DeepEqual(x.Interface(), y.Interface()), true
	case reflect.Slice, reflect.Map:
		if x.IsNil() && y.IsNil() {
			return true, true
		}
		return reflect.DeepEqual(x.Interface(), y.Interface()), true
	case reflect.Ptr:
		if x.IsNil() || y.IsNil() {
			return x.IsNil() && y.IsNil(), true
		}
		if depth > 3 {
			return false, false
		}
		if x.Pointer() == y.Pointer() {
			if vkit.HasNaN(x) {
				return false, false
			}
			return true, true
		}
		switch x.Elem().Kind() {
		case reflect.Struct, reflect.Array, reflect.Slice, reflect.Map:
			// pointee by deep equality (a nil and an empty slice pointee differ, as DeepEqual says)
			return reflect.DeepEqual(x.Elem().Interface(), y.Elem().Interface()), true
		case reflect.Func, reflect.Chan, reflect.Interface:
			return false, false
		}
		return oracle(x.Elem(), y.Elem(), depth+1)
	case reflect.Interface:
		if x.IsNil() || y.IsNil() {
			return x.IsNil() && y.IsNil(), true
		}
		if x.Elem().Type() != y.Elem().Type() {
			return false, false // different dynamic types: outside "same-typed"
		}
		return oracle(x.Elem(), y.Elem(), depth+1)
	case reflect.Func:
		if x.IsNil() || y.IsNil() {
			return x.IsNil() && y.IsNil(), true
		}
		return x.Pointer() == y.Pointer(), true
	}
	return false, false
}

func eval(e arg.Expr, t reflect.Type, y reflect.Value) (res bool, err error) {
	defer func() {
		if r := recover(); r != nil {
			err = fmt.Errorf("panic: %v", r)
		}
	}()
	return e.Eval([]reflect.Value{y}, false)
}

func mkEquals(pat interface{}, t reflect.Type) (e arg.Expr, err error) {
	defer func() {
		if r := recover(); r != nil {
			err = fmt.Errorf("panic while resolving: %v", r)
		}
	}()
	ex := arg.Equals(pat)
	if err := ex.Resolve([]reflect.Type{t}, false); err != nil {
		return nil, fmt.Errorf("Resolve: %v", err)
	}
	return ex, nil
}

func pattern(v reflect.Value, untypedNil bool) interface{} {
	if untypedNil && nilable(v.Kind()) && v.IsNil() {
		return nil
	}
	return v.Interface()
}

func runPair(ci interface{}, s *vkit.Stats) error {
	c := ci.(*pairCase)
	t := types[c.T%len(types)]
	x := vkit.Value(t, c.X)
	var y reflect.Value
	switch c.Rel {
	case "copy":
		y = vkit.Value(t, c.X)
	case "same":
		y = reflect.New(t).Elem()
		y.Set(x)
	case "neighbour":
		// a deep copy of x with one leaf changed minimally (integer +-1, next float, one character)
		var ok bool
		if y, ok = vkit.Perturb(x, c.Y); !ok {
			y = vkit.Value(t, c.Y)
		} else {
			s.Class("neighbour-pairs")
		}
	default:
		y = vkit.Value(t, c.Y)
	}
	desc := func() string {
		return fmt.Sprintf("type %v x=%s y=%s (rel %s)", t, vkit.Describe(x), vkit.Describe(y), c.Rel)
	}
	ex, err := mkEquals(pattern(x, c.NilPat), t)
	if err != nil {
		return fmt.Errorf("Equals(x) on well-typed input: %v; %s", err, desc())
	}
	ey, err := mkEquals(pattern(y, c.NilPat), t)
	if err != nil {
		return fmt.Errorf("Equals(y) on well-typed input: %v; %s", err, desc())
	}
	r1, err := eval(ex, t, y)
	if err != nil {
		return fmt.Errorf("Equals(x).Eval(y): %v; %s", err, desc())
	}
	want, judged := oracle(x, y, 0)
	if judged {
		s.Class("judged/" + t.Kind().String())
		if r1 != want {
			return fmt.Errorf("Equals(x).Eval(y) = %v, Go equality says %v; %s", r1, want, desc())
		}
		if c.X != 0 || (c.Rel == "indep" && c.Y != 0) {
			s.NonTrivial(fmt.Sprintf("%d/%d/%d/%s/%v", c.T%len(types), c.X, c.Y, c.Rel, c.NilPat))
		}
		if want {
			s.Class("equal-pairs")
		} else {
			s.Class("unequal-pairs")
		}
	} else {
		s.Exclude("not-judged(NaN/mixed-zero/different-dynamic-type)/" + t.Kind().String())
	}
	// symmetry
	sameDyn := true
	if t.Kind() == reflect.Interface && !x.IsNil() && !y.IsNil() && x.Elem().Type() != y.Elem().Type() {
		sameDyn = false
	}
	r2, err := eval(ey, t, x)
	if err != nil {
		return fmt.Errorf("Equals(y).Eval(x): %v; %s", err, desc())
	}
	if sameDyn && r1 != r2 {
		return fmt.Errorf("not symmetric: Equals(x).Eval(y)=%v but Equals(y).Eval(x)=%v; %s", r1, r2, desc())
	}
	// Any accepts everything
	if ok, err := eval(arg.Any(), t, y); err != nil || !ok {
		return fmt.Errorf("Any().Eval(y) = %v, %v; %s", ok, err, desc())
	}
	// In == union of Equals
	alts := []reflect.Value{x}
	for _, code := range c.In {
		alts = append(alts, vkit.Value(t, code))
	}
	var pats []interface{}
	union := false
	for _, a := range alts {
		pats = append(pats, pattern(a, c.NilPat))
		ea, err := mkEquals(pattern(a, c.NilPat), t)
		if err != nil {
			return fmt.Errorf("Equals(alt): %v; %s", err, desc())
		}
		r, err := eval(ea, t, y)
		if err != nil {
			return fmt.Errorf("Equals(alt).Eval(y): %v; %s", err, desc())
		}
		union = union || r
	}
	var in *arg.InExpr
	var ierr error
	func() {
		defer func() {
			if r := recover(); r != nil {
				ierr = fmt.Errorf("panic: %v", r)
			}
		}()
		in = arg.In(pats...)
		ierr = in.Resolve([]reflect.Type{t}, false)
	}()
	if ierr != nil {
		return fmt.Errorf("In(...).Resolve: %v; %s", ierr, desc())
	}
	ri, err := eval(in, t, y)
	if err != nil {
		return fmt.Errorf("In(...).Eval(y): %v; %s", err, desc())
	}
	if ri != union {
		return fmt.Errorf("In(%d alternatives).Eval(y)=%v but the union of Equals(xi).Eval(y) is %v; %s", len(alts), ri, union, desc())
	}
	if len(alts) > 1 {
		s.Class("in-with->=2-alternatives")
	}
	// the same membership question asked the way users ask it: When.In(candidates...) of a one-parameter function
	whenIn := func(cands []interface{}, probe reflect.Value) (hit bool, err error) {
		defer func() {
			if r := recover(); r != nil {
				err = fmt.Errorf("panic: %v", r)
			}
		}()
		w := mocker.NewWhen(reflect.FuncOf([]reflect.Type{t}, []reflect.Type{reflect.TypeOf(0)}, false))
		w.Return(0)
		w.In(cands...).Return(1)
		out := w.Eval(pattern(probe, false))
		return len(out) == 1 && out[0] == 1, nil
	}
	if t.Kind() != reflect.Func {
		wi, err := whenIn(pats, y)
		if err != nil {
			return fmt.Errorf("When.In(...).Eval(y): %v; %s", err, desc())
		}
		if wi != union {
			return fmt.Errorf("When.In(%d candidates) selects its result for y: %v, but the union of Equals(xi).Eval(y) is %v; %s", len(alts), wi, union, desc())
		}
		s.Class("when-in")
		// candidates that differ although they print alike: nil and empty, and y itself after everything else
		extra := append(append([]interface{}{}, pats...), pattern(y, c.NilPat))
		if t.Kind() == reflect.Slice || t.Kind() == reflect.Map {
			empty := reflect.MakeSlice(reflect.SliceOf(reflect.TypeOf(0)), 0, 0)
			if t.Kind() == reflect.Slice {
				empty = reflect.MakeSlice(t, 0, 0)
			} else {
				empty = reflect.MakeMap(t)
			}
			for _, cands := range [][]interface{}{{reflect.Zero(t).Interface(), empty.Interface()}, {empty.Interface(), reflect.Zero(t).Interface()}} {
				for _, probe := range []reflect.Value{reflect.Zero(t), empty} {
					hit, err := whenIn(cands, probe)
					in2 := arg.In(cands...)
					_ = in2.Resolve([]reflect.Type{t}, false)
					hit2, err2 := eval(in2, t, probe)
					if err != nil || err2 != nil || !hit || !hit2 {
						return fmt.Errorf("In(nil, empty) of type %v (in either order) asked about %s: When.In says %v (%v), arg.In says %v (%v), want true", t, vkit.Describe(probe), hit, err, hit2, err2)
					}
				}
			}
			s.Class("in-nil-and-empty")
		}
		if yeq, _ := eval(ey, t, y); yeq {
			hit, err := whenIn(extra, y)
			if err != nil || !hit {
				return fmt.Errorf("When.In(candidates..., y) asked about y says %v (%v) although Equals(y).Eval(y) holds; %s", hit, err, desc())
			}
		}
	}
	// evaluating never changes later answers
	for k := 0; k < 2; k++ {
		if r, err := eval(ex, t, y); err != nil || r != r1 {
			return fmt.Errorf("Equals(x).Eval(y) changed from %v to %v (%v) on re-evaluation; %s", r1, r, err, desc())
		}
		if r, err := eval(in, t, y); err != nil || r != ri {
			return fmt.Errorf("In.Eval(y) changed from %v to %v (%v) on re-evaluation; %s", ri, r, err, desc())
		}
	}
	// expressions are independent objects: building, resolving and evaluating another expression (a nil pattern for a parameter
	// of another nilable kind, the same pattern for the same type) does not change this one's answers
	{
		ot := reflect.TypeOf(map[string]int(nil))
		if t.Kind() == reflect.Map {
			ot = reflect.TypeOf((*int)(nil))
		}
		for _, tt := range []reflect.Type{ot, t, reflect.TypeOf([]int(nil)), reflect.TypeOf((*error)(nil)).Elem()} {
			var pat interface{}
			if tt == t {
				pat = pattern(x, c.NilPat)
			}
			if o, err := mkEquals(pat, tt); err == nil {
				_, _ = eval(o, tt, reflect.Zero(tt))
			}
		}
		if r, err := eval(ex, t, y); err != nil || r != r1 {
			return fmt.Errorf("Equals(x).Eval(y) changed from %v to %v (%v) after other expressions (nil patterns for other kinds) were built and resolved; %s", r1, r, err, desc())
		}
		if pattern(x, c.NilPat) == nil {
			s.Class("nil-pattern-re-evaluated-after-nil-patterns-of-other-kinds")
		}
	}
	// other inputs in between (for interface-typed parameters: of other dynamic types) do not change the answer for y
	for k := uint64(1); k <= 3; k++ {
		z := vkit.Value(t, c.Y*7+c.X+k*1000003)
		if _, err := eval(ex, t, z); err != nil {
			return fmt.Errorf("Equals(x).Eval(z): %v; z=%s; %s", err, vkit.Describe(z), desc())
		}
		if _, err := eval(in, t, z); err != nil {
			return fmt.Errorf("In(...).Eval(z): %v; z=%s; %s", err, vkit.Describe(z), desc())
		}
		if r, err := eval(ex, t, y); err != nil || r != r1 {
			return fmt.Errorf("Equals(x).Eval(y) changed from %v to %v (%v) after the expression was evaluated on z=%s; %s", r1, r, err, vkit.Describe(z), desc())
		}
		if r, err := eval(in, t, y); err != nil || r != ri {
			return fmt.Errorf("In.Eval(y) changed from %v to %v (%v) after the expression was evaluated on z=%s; %s", ri, r, err, vkit.Describe(z), desc())
		}
		if t.Kind() == reflect.Interface && !z.IsNil() && !y.IsNil() && z.Elem().Kind() != y.Elem().Kind() {
			s.Class("re-evaluated-after-an-input-of-another-dynamic-kind")
		}
	}
	// the same expression object evaluated on inputs that share storage with an earlier input but differ in value:
	// a prefix of the same slice, the same pointer/map/slice after its contents changed. Each answer must be the one a
	// freshly built expression gives for that input.
	fresh := func(in reflect.Value) (bool, error) {
		e, err := mkEquals(pattern(x, c.NilPat), t)
		if err != nil {
			return false, err
		}
		return eval(e, t, in)
	}
	var series []reflect.Value
	switch y.Kind() {
	case reflect.Slice:
		if y.Len() >= 1 {
			series = append(series, y.Slice(0, y.Len()-1), y)
			if y.Cap() > y.Len() {
				series = append(series, y.Slice(0, y.Len()+1))
			}
		}
	}
	for i, in := range series {
		in2 := reflect.New(t).Elem()
		in2.Set(in)
		got, err := eval(ex, t, in2)
		want, ferr := fresh(in2)
		if err != nil || ferr != nil || got != want {
			return fmt.Errorf("Equals(x) evaluated on input %d of a series sharing one backing array (%s) answers %v (%v); a fresh Equals(x) answers %v (%v); %s", i, vkit.Describe(in2), got, err, want, ferr, desc())
		}
		s.Class("aliased-input-series")
	}
	if (y.Kind() == reflect.Ptr || y.Kind() == reflect.Map || y.Kind() == reflect.Slice) && !y.IsNil() && c.Rel != "same" {
		// mutate what y refers to, in place, and evaluate again through the same expression objects
		before, _ := eval(ex, t, y)
		mutated := false
		switch y.Kind() {
		case reflect.Ptr:
			if pv, ok := vkit.Perturb(y.Elem(), c.X+c.Y+1); ok && y.Elem().CanSet() {
				y.Elem().Set(pv)
				mutated = true
			}
		case reflect.Slice:
			if y.Len() > 0 {
				if pv, ok := vkit.Perturb(y.Index(0), c.X+c.Y+1); ok {
					y.Index(0).Set(pv)
					mutated = true
				}
			}
		case reflect.Map:
			if y.Type().Key().Kind() == reflect.String {
				y.SetMapIndex(reflect.ValueOf("added-by-the-harness").Convert(y.Type().Key()), reflect.Zero(y.Type().Elem()))
				mutated = true
			}
		}
		if mutated {
			got, err := eval(ex, t, y)
			want, ferr := fresh(y)
			if err != nil || ferr != nil || got != want {
				return fmt.Errorf("after the argument's referent was changed in place, the already evaluated Equals(x) answers %v (%v) (it answered %v before), a fresh Equals(x) answers %v (%v); y is now %s; %s", got, err, before, want, ferr, vkit.Describe(y), desc())
			}
			ri2, err := eval(in, t, y)
			fin := arg.In(pats...)
			_ = fin.Resolve([]reflect.Type{t}, false)
			wi, _ := eval(fin, t, y)
			if err != nil || ri2 != wi {
				return fmt.Errorf("after the argument's referent was changed in place, the already evaluated In(...) answers %v (%v), a fresh In(...) answers %v; %s", ri2, err, wi, desc())
			}
			s.Class("mutated-referent-re-evaluated")
		}
	}
	s.Sample(map[string]interface{}{"type": t.String(), "x": vkit.Describe(x), "y": vkit.Describe(y), "rel": c.Rel, "equals": r1, "judged": judged})
	return nil
}

func genPair() func(rt *rapid.T) interface{} {
	return func(rt *rapid.T) interface{} {
		c := &pairCase{T: rapid.SampledFrom(typeIdx).Draw(rt, "type")}
		c.TName = types[c.T].String()
		c.X = uint64(vkit.ValueCode().Draw(rt, "x"))
		c.Rel = rapid.SampledFrom([]string{"indep", "indep", "copy", "copy", "same", "neighbour", "neighbour"}).Draw(rt, "rel")
		if c.Rel == "indep" || c.Rel == "neighbour" {
			c.Y = uint64(vkit.ValueCode().Draw(rt, "y"))
		}
		c.NilPat = rapid.Bool().Draw(rt, "nilpat")
		n := rapid.IntRange(0, 3).Draw(rt, "nin")
		for i := 0; i < n; i++ {
			if rapid.Bool().Draw(rt, "in-hit") && c.Rel == "indep" {
				c.In = append(c.In, c.Y)
			} else {
				c.In = append(c.In, uint64(vkit.ValueCode().Draw(rt, "in")))
			}
		}
		return c
	}
}

func TestVerifC18(t *testing.T) {
	p := &vkit.Prop{ID: "C18", Unit: "pairs", New: func() interface{} { return &pairCase{} }, Gen: genPair(), Run: runPair}
	s := p.Main(t, vkit.Scale(40000, 1500000))
	if !vkit.Replaying() {
		s.Done()
	}
}

// FuzzVerifC18 drives the same property from coverage-guided bytes (thorough tier).
func FuzzVerifC18(f *testing.F) {
	p := &vkit.Prop{ID: "C18", Unit: "pairs", New: func() interface{} { return &pairCase{} }, Gen: genPair(), Run: runPair}
	st := vkit.NewStats("C18", "pairs")
	f.Fuzz(rapid.MakeFuzz(func(rt *rapid.T) {
		c := p.Gen(rt)
		if err := p.SafeRun(c, st); err != nil {
			st.Violation(err.Error(), c)
			rt.Fatalf("%v", err)
		}
	}))
}
