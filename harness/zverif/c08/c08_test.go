//go:build go1.18 && amd64
// +build go1.18,amd64

// Package c08: variable mocks take effect for every type and restore the pre-mock value (property C08).
package c08

import (
	"fmt"
	"os"
	"reflect"
	"strings"
	"testing"

	mocker "github.com/tencent/goom"
	"github.com/tencent/goom/zverif/corpus"
	"github.com/tencent/goom/zverif/vkit"
	"pgregory.net/rapid"
)

type histCase struct {
	Ops []vkit.Op `json:"ops"`
}

type vstate struct {
	mocked bool          // a Set/Apply happened through the live mocker of this builder
	orig   reflect.Value // value before the first mock of this builder
	cur    reflect.Value // value the variable must hold now
}

func snapshot(v reflect.Value) reflect.Value {
	c := reflect.New(v.Type()).Elem()
	c.Set(v)
	if v.Kind() == reflect.String {
		// the model must not keep the variable's own bytes alive: whoever saves the pre-mock value has to
		c.SetString(strings.Clone(v.String()))
	}
	return c
}

func guard(f func()) (pv interface{}) {
	defer func() { pv = recover() }()
	f()
	return nil
}

func runHist(ci interface{}, s *vkit.Stats) error {
	c := ci.(*histCase)
	// every history starts from the variables' initial values
	initial := make([]reflect.Value, len(corpus.Vars))
	for i, v := range corpus.Vars {
		initial[i] = snapshot(v.Direct())
	}
	defer func() {
		for i, v := range corpus.Vars {
			v.Direct().Set(initial[i])
		}
	}()
	b := mocker.Create()
	st := map[int]*vstate{}
	var kinds []string
	sets := map[int]int{}
	mode := map[int]bool{}
	keepMode := map[int]bool{}
	kept := map[int]mocker.VarMock{}
	everMocked := map[int]bool{}
	nontrivial := false
	check := func(step int, what string) error {
		for k, t := range st {
			vi := corpus.Vars[k]
			if !vkit.Same(vi.Direct(), t.cur) {
				return fmt.Errorf("step %d (%s): variable %s %s holds %s, must hold %s", step, what, vi.Name, vi.Type, vkit.Describe(vi.Direct()), vkit.Describe(t.cur))
			}
			if r := vi.Read(); !vkit.Same(r, t.cur) {
				return fmt.Errorf("step %d (%s): accessor of %s sees %s, must see %s", step, what, vi.Name, vkit.Describe(r), vkit.Describe(t.cur))
			}
		}
		return nil
	}
	restore := func(k int) {
		t := st[k]
		if t != nil && t.mocked {
			t.cur = t.orig
			t.mocked = false
		}
	}
	for step, op := range c.Ops {
		for len(op.I) < 3 {
			op.I = append(op.I, 0)
		}
		k := vkit.Pick(op.I[0], len(corpus.Vars))
		vi := corpus.Vars[k]
		// unexported variables are addressed as "package.name" in some histories; one variable keeps one
		// form of address throughout a history (both forms on one variable never occur in real use: by-name
		// exists for variables that cannot be addressed by pointer)
		if _, ok := mode[k]; !ok {
			mode[k] = !vi.Exported && vkit.Pick(op.I[2], 2) == 0
		}
		byName := mode[k]
		if byName && vi.Type.Kind() == reflect.Interface {
			mode[k] = false
			// UnExportedVar(...).Set(v) types the variable as reflect.TypeOf(v): it cannot name an interface type,
			// and its documentation requires the value's type to be the variable's type
			byName = false
			s.Exclude("by-name-on-interface-typed-variable(cannot be expressed through the API)")
		}
		t := st[k]
		if t == nil {
			t = &vstate{cur: snapshot(vi.Direct())}
			st[k] = t
		}
		// a variable is driven either through freshly looked-up handles or, throughout the life of the builder, through the
		// one handle obtained first (a kept handle that a later lookup superseded is no longer the builder's: not mixed)
		if _, ok := keepMode[k]; !ok {
			keepMode[k] = vkit.Pick(op.I[2]>>1, 3) == 0
		}
		mk := func() mocker.VarMock {
			if keepMode[k] {
				if h, ok := kept[k]; ok {
					s.Class("through-kept-handle")
					return h
				}
			}
			var h mocker.VarMock
			if byName {
				h = b.UnExportedVar(corpus.PkgPath + "." + vi.Name)
			} else {
				h = b.Var(vi.Ptr)
			}
			if keepMode[k] {
				kept[k] = h
			}
			return h
		}
		what := fmt.Sprintf("%s %s byName=%v", op.K, vi.Name, byName)
		switch op.K {
		case "set", "apply":
			val := vkit.Value(vi.Type, uint64(op.I[1]))
			if val.Kind() == reflect.Interface && val.IsNil() {
				// an untyped nil handed to Set(interface{}) carries no type: the statement is about values of the variable's type
				s.Exclude("set-nil-interface-value")
				continue
			}
			if op.K == "apply" && byName {
				s.Exclude("apply-on-unexported-variable-mocker(not generated)")
				continue
			}
			if !t.mocked {
				t.orig = snapshot(vi.Direct())
			}
			var pv interface{}
			if op.K == "set" {
				pv = guard(func() { mk().Set(val.Interface()) })
			} else {
				cb := reflect.MakeFunc(reflect.FuncOf(nil, []reflect.Type{vi.Type}, false), func([]reflect.Value) []reflect.Value { return []reflect.Value{val} }).Interface()
				pv = guard(func() { mk().Apply(cb) })
			}
			if pv != nil {
				return fmt.Errorf("step %d (%s): panicked: %v", step, what, pv)
			}
			t.mocked = true
			everMocked[k] = true
			t.cur = val
			sets[k]++
			kinds = append(kinds, op.K+"/"+vi.Type.Kind().String())
			s.Class("set/" + vi.Type.Kind().String())
			if byName {
				s.Class("by-name")
			}
		case "lookup":
			// a handle is obtained and nothing is done with it yet
			if pv := guard(func() { mk() }); pv != nil {
				return fmt.Errorf("step %d (%s): panicked: %v", step, what, pv)
			}
			kinds = append(kinds, "lookup")
		case "assign":
			// the program itself assigns the variable before its first mock in this builder (possibly after a handle was looked up):
			// that value is the pre-mock value. (After the first mock the statement pins the restored value to the one before
			// THAT mock, so later assignments by the program are not generated.)
			if t.mocked || everMocked[k] {
				continue
			}
			val := vkit.Value(vi.Type, uint64(op.I[1]))
			if vi.Type.Kind() == reflect.String {
				// a string built at run time, 25..64 bytes, which only the variable references from here on
				n := 25 + int(uint64(op.I[1])%40)
				val = reflect.ValueOf(strings.Repeat("v", n-4) + fmt.Sprintf("%04d", uint64(op.I[1])%10000)).Convert(vi.Type)
				s.Class("string-variable-holding-the-only-reference-to-heap-bytes")
			}
			vi.Direct().Set(val)
			t.cur = snapshot(vi.Direct())
			s.Class("assigned-by-the-program-between-mocks")
			if _, ok := kept[k]; ok {
				s.Class("assigned-while-a-handle-exists")
				nontrivial = true
			}
			kinds = append(kinds, "assign")
		case "gc":
			// collections and heap reuse while variables are mocked: the saved pre-mock value is goom's to keep alive
			vkit.GC()
			vkit.ChurnSmall(1500)
			for _, x := range st {
				if x.mocked {
					s.Class("gc-while-a-variable-is-mocked")
					break
				}
			}
			kinds = append(kinds, "gc")
		case "cancel":
			if !t.mocked {
				s.Class("cancel-without-set")
				nontrivial = true
			} else if sets[k] >= 2 {
				s.Class("restore-after->=2-sets")
				nontrivial = true
			}
			if pv := guard(func() { mk().Cancel() }); pv != nil {
				return fmt.Errorf("step %d (%s): Cancel panicked: %v", step, what, pv)
			}
			restore(k)
			sets[k] = 0
			kinds = append(kinds, "cancel")
		case "cancel2":
			// cancel through a handle obtained earlier, twice
			m := mk()
			wasMocked := t.mocked
			if pv := guard(func() { m.Cancel(); m.Cancel() }); pv != nil {
				return fmt.Errorf("step %d (%s): double Cancel panicked: %v", step, what, pv)
			}
			if wasMocked {
				s.Class("double-restore")
				nontrivial = true
			}
			restore(k)
			sets[k] = 0
			kinds = append(kinds, "cancel2")
		case "reset":
			for kk, n := range sets {
				if n >= 2 {
					s.Class("restore-after->=2-sets")
					nontrivial = true
				}
				sets[kk] = 0
			}
			if pv := guard(func() { b.Reset() }); pv != nil {
				return fmt.Errorf("step %d (Reset): panicked: %v", step, pv)
			}
			for kk := range st {
				restore(kk)
			}
			if vkit.Pick(op.I[1], 2) == 0 {
				if pv := guard(func() { b.Reset() }); pv != nil {
					return fmt.Errorf("step %d (second Reset): panicked: %v", step, pv)
				}
				s.Class("double-reset")
			}
			kinds = append(kinds, "reset")
		case "newbuilder":
			_ = guard(func() { b.Reset() })
			for kk := range st {
				restore(kk)
				sets[kk] = 0
			}
			b = mocker.Create()
			kept = map[int]mocker.VarMock{}
			everMocked = map[int]bool{}
		}
		if err := check(step, what); err != nil {
			return err
		}
	}
	if pv := guard(func() { b.Reset() }); pv != nil {
		return fmt.Errorf("final Reset panicked: %v", pv)
	}
	for kk := range st {
		restore(kk)
	}
	if err := check(len(c.Ops), "final Reset"); err != nil {
		return err
	}
	if nontrivial {
		s.NonTrivial(strings.Join(kinds, ","))
	}
	s.Sample(c)
	return nil
}

var opGen = vkit.OpGen([]string{"set", "apply", "cancel", "cancel2", "reset", "newbuilder", "lookup", "assign", "gc"}, []int{8, 3, 3, 1, 2, 1, 2, 3, 2}, 3)

func TestVerifC08(t *testing.T) {
	if f, err := os.OpenFile(os.DevNull, os.O_WRONLY, 0); err == nil && os.Getenv("VERIF_VERBOSE") == "" {
		os.Stdout = f
	}
	p := &vkit.Prop{ID: "C08", Unit: "histories",
		New: func() interface{} { return &histCase{} },
		Gen: func(rt *rapid.T) interface{} {
			ops := rapid.SliceOfN(opGen, 1, 14).Draw(rt, "ops")
			// histories concentrate on few variables so that repeated Sets happen
			base := int64(rapid.IntRange(0, len(corpus.Vars)-1).Draw(rt, "base"))
			for i := range ops {
				ops[i].I[0] = base + int64(vkit.Pick(ops[i].I[0], 2))
			}
			return &histCase{Ops: ops}
		},
		Run: runHist}
	s := p.Main(t, vkit.Scale(3000, 60000))
	if !vkit.Replaying() {
		s.Done()
	}
}
