//go:build go1.18 && amd64
// +build go1.18,amd64

// Package c13: configuration mistakes are rejected up front and leave nothing patched (property C13).
package c13

import (
	"fmt"
	"os"
	"reflect"
	"runtime"
	"strings"
	"testing"

	mocker "github.com/tencent/goom"
	"github.com/tencent/goom/erro"
	"github.com/tencent/goom/zverif/corpus"
	"github.com/tencent/goom/zverif/vkit"
	"pgregory.net/rapid"
)

type mistake struct {
	Class string `json:"class"`
	Fn    int    `json:"fn"`
	Pos   int    `json:"pos"`
	K     int    `json:"k"`
}

var classes = []string{
	"non-function-target", "cb-too-few-params", "cb-too-many-params", "cb-too-few-results", "cb-too-many-results", "cb-param-size", "cb-result-size",
	"when-too-few", "when-too-few-chained", "ret-too-few", "ret-size", "returns-size", "returns-too-few", "method-ret-size", "method-returns-size", "method-when-too-few",
	"iface-ret-size", "iface-returns-size", "unknown-method", "unknown-symbol", "unknown-struct-method-by-name",
	"iface-non-pointer", "iface-ptr-to-non-iface", "iface-cb-no-ctx", "iface-cb-too-few", "iface-cb-too-many", "iface-cb-results", "iface-unknown-method",
}

// a method handed to Func as a method expression (the receiver is the first parameter): the same mistakes must be refused
type mxT struct{ n int }

var mxRan int64

//go:noinline
func (m *mxT) Add(a int, s string) int {
	mxRan++
	if m == nil {
		return a + len(s)
	}
	return m.n + a + len(s)
}

var mxFn = &corpus.Fn{ID: -1, Name: "(*mxT).Add (method expression)", Fn: (*mxT).Add, Type: reflect.TypeOf((*mxT).Add),
	Call: func(form int, a []reflect.Value) []reflect.Value {
		recv, _ := a[0].Interface().(*mxT)
		return []reflect.Value{reflect.ValueOf(recv.Add(int(a[1].Int()), a[2].String()))}
	}}

// variadic targets with two and three fixed parameters (a condition may be shorter than the fixed part only by mistake)
var vaRan [2]int64

//go:noinline
func va2(a int, s string, v ...int) int { vaRan[0]++; return a + len(s) + len(v) }

//go:noinline
func va3(a int, s string, f float64, v ...string) int { vaRan[1]++; return a + len(s) + int(f) + len(v) }

var vaFns = []*corpus.Fn{
	{ID: -2, Name: "va2", Fn: va2, Type: reflect.TypeOf(va2), Call: func(form int, a []reflect.Value) []reflect.Value {
		return reflect.ValueOf(va2).CallSlice(a)
	}},
	{ID: -3, Name: "va3", Fn: va3, Type: reflect.TypeOf(va3), Call: func(form int, a []reflect.Value) []reflect.Value {
		return reflect.ValueOf(va3).CallSlice(a)
	}},
}

// origRan reads the run counter of a target's original body
func origRan(fn *corpus.Fn) int64 {
	if fn == mxFn {
		return mxRan
	}
	if fn.ID == -2 || fn.ID == -3 {
		return vaRan[-fn.ID-2]
	}
	return corpus.OrigRan[fn.ID]
}

func guard(f func()) (pv interface{}) {
	defer func() { pv = recover() }()
	f()
	return nil
}

// otherSizeK: a type of another size; every third choice is a zero-size type (struct{} / [0]int64), which occupies no
// register or stack slot at all
func otherSizeK(t reflect.Type, k int) reflect.Type {
	if t.Size() != 0 {
		switch k % 6 {
		case 0:
			return reflect.TypeOf(struct{}{})
		case 3:
			return reflect.TypeOf([0]int64{})
		}
	}
	return otherSize(t)
}

func otherSize(t reflect.Type) reflect.Type {
	if t.Size() == 8 {
		return reflect.TypeOf(int32(0))
	}
	return reflect.TypeOf(int64(0))
}

func ins(t reflect.Type) []reflect.Type {
	r := make([]reflect.Type, t.NumIn())
	for i := range r {
		r[i] = t.In(i)
	}
	return r
}

func outs(t reflect.Type) []reflect.Type {
	r := make([]reflect.Type, t.NumOut())
	for i := range r {
		r[i] = t.Out(i)
	}
	return r
}

func max1(n int) int {
	if n < 1 {
		return 1
	}
	return n
}

// valsOf builds result values for function type t; the value at position bad (if >= 0) has the wrong size
func valsOf(t reflect.Type, bad int) []interface{} {
	vals := make([]interface{}, t.NumOut())
	for i := range vals {
		vals[i] = vkit.Value(t.Out(i), uint64(i+1)).Interface()
		if i == bad {
			vals[i] = reflect.Zero(otherSize(t.Out(i))).Interface()
		}
	}
	return vals
}

func mkFunc(in, out []reflect.Type, variadic bool) interface{} {
	if variadic && (len(in) == 0 || in[len(in)-1].Kind() != reflect.Slice) {
		variadic = false
	}
	ft := reflect.FuncOf(in, out, variadic)
	return reflect.MakeFunc(ft, func([]reflect.Value) []reflect.Value {
		r := make([]reflect.Value, len(out))
		for i := range r {
			r[i] = reflect.Zero(out[i])
		}
		return r
	}).Interface()
}

// typed cause expected for the class ("" = any panic/error will do)
func typedCause(class string) string {
	switch class {
	case "when-too-few":
		return "*erro.ArgsNotMatch"
	case "ret-too-few":
		return "*erro.ReturnsNotMatch"
	case "iface-ptr-to-non-iface-apply", "iface-cb-no-ctx":
		return "*erro.IllegalParamType"
	case "iface-cb-too-few":
		return "*erro.ArgsNotMatch"
	}
	return ""
}

var img *vkit.TextImage

func runMistake(ci interface{}, s *vkit.Stats) error {
	c := ci.(*mistake)
	fn := corpus.Fns[c.Fn%len(corpus.Fns)]
	if c.Fn%7 == 3 && (strings.HasPrefix(c.Class, "cb-") || c.Class == "when-too-few" || strings.HasPrefix(c.Class, "ret")) {
		fn = mxFn
		s.Class("target-is-a-method-expression")
	}
	if c.Class == "when-too-few-chained" && c.Fn%2 == 0 {
		fn = vaFns[(c.Fn/2)%2]
	}
	ft := fn.Type
	b := mocker.Create()
	defer func() { _ = guard(func() { b.Reset() }) }()
	ii := corpus.Ifaces[c.Fn%len(corpus.Ifaces)]
	im := ii.Methods[c.Pos%len(ii.Methods)]
	cbt := reflect.TypeOf(im.As)
	ii.SetNil(0)
	wordsBefore := ii.Words(0)
	diffBefore := img.Diff()
	rec := &corpus.Rec{}
	var do func()
	applicable := true
	var methodBefore *corpus.Method
	switch c.Class {
	case "non-function-target":
		targets := []interface{}{42, "not a function", struct{}{}, 3.5, []int{1}, nil, &rec}
		tg := targets[c.K%len(targets)]
		do = func() { b.Func(tg).Apply(func() {}) }
	case "cb-too-few-params":
		if ft.NumIn() == 0 {
			applicable = false
			break
		}
		in := ins(ft)
		k := c.Pos % len(in)
		in = append(in[:k:k], in[k+1:]...)
		do = func() { b.Func(fn.Fn).Apply(mkFunc(in, outs(ft), false)) }
	case "cb-too-many-params":
		in := ins(ft)
		k := c.Pos % (len(in) + 1)
		in = append(in[:k:k], append([]reflect.Type{reflect.TypeOf(0)}, in[k:]...)...)
		do = func() { b.Func(fn.Fn).Apply(mkFunc(in, outs(ft), false)) }
	case "cb-too-few-results":
		if ft.NumOut() == 0 {
			applicable = false
			break
		}
		out := outs(ft)
		k := c.Pos % len(out)
		out = append(out[:k:k], out[k+1:]...)
		do = func() { b.Func(fn.Fn).Apply(mkFunc(ins(ft), out, ft.IsVariadic())) }
	case "cb-too-many-results":
		out := append(outs(ft), reflect.TypeOf(0))
		do = func() { b.Func(fn.Fn).Apply(mkFunc(ins(ft), out, ft.IsVariadic())) }
	case "cb-param-size":
		if ft.NumIn() == 0 {
			applicable = false
			break
		}
		in := ins(ft)
		k := c.Pos % len(in)
		in[k] = otherSizeK(in[k], c.K)
		if in[k].Size() == 0 {
			s.Class("zero-size-type-in-the-callback")
		}
		do = func() { b.Func(fn.Fn).Apply(mkFunc(in, outs(ft), false)) }
	case "cb-result-size":
		if ft.NumOut() == 0 {
			applicable = false
			break
		}
		out := outs(ft)
		k := c.Pos % len(out)
		out[k] = otherSizeK(out[k], c.K)
		if out[k].Size() == 0 {
			s.Class("zero-size-type-in-the-callback")
		}
		do = func() { b.Func(fn.Fn).Apply(mkFunc(ins(ft), out, ft.IsVariadic())) }
	case "when-too-few":
		if ft.NumIn() < 2 || ft.IsVariadic() {
			applicable = false
			break
		}
		k := 1 + c.K%(ft.NumIn()-1)
		var args []interface{}
		for i := 0; i < k; i++ {
			args = append(args, vkit.Value(ft.In(i), uint64(i+1)).Interface())
		}
		res := make([]interface{}, ft.NumOut())
		for i := range res {
			res[i] = vkit.Value(ft.Out(i), 1).Interface()
		}
		do = func() { b.Func(fn.Fn).When(args...).Return(res...) }
	case "when-too-few-chained":
		// the same mistake on the second and third clause of a chain, on variadic targets too (fewer arguments than fixed
		// parameters): every repetition must be refused, not only the first one of its kind in the process
		fixed := ft.NumIn()
		if ft.IsVariadic() {
			fixed--
		}
		if fixed < 2 || ft.NumOut() == 0 {
			applicable = false
			break
		}
		k := 1 + c.K%(fixed-1)
		var few, full []interface{}
		for i := 0; i < fixed; i++ {
			full = append(full, vkit.Value(ft.In(i), uint64(i+1)).Interface())
			if i < k {
				few = append(few, vkit.Value(ft.In(i), uint64(i+1)).Interface())
			}
		}
		if ft.IsVariadic() {
			full = append(full, vkit.Value(ft.In(fixed).Elem(), 1).Interface())
			s.Class("chained-too-few-on-a-variadic-target")
		}
		res := make([]interface{}, ft.NumOut())
		for i := range res {
			res[i] = vkit.Value(ft.Out(i), 1).Interface()
		}
		do = func() {
			w := b.Func(fn.Fn).When(full...).Return(res...)
			first := guard(func() { w.When(few...).Return(res...) })
			second := guard(func() { w.When(few...).Return(res...) })
			b.Reset()
			if first == nil || second == nil {
				return // accepted
			}
			panic(second)
		}
	case "ret-too-few":
		if ft.NumOut() < 2 {
			applicable = false
			break
		}
		k := 1 + c.K%(ft.NumOut()-1)
		var vals []interface{}
		for i := 0; i < k; i++ {
			vals = append(vals, vkit.Value(ft.Out(i), uint64(i+1)).Interface())
		}
		do = func() { b.Func(fn.Fn).Return(vals...) }
	case "ret-size":
		if ft.NumOut() == 0 {
			applicable = false
			break
		}
		k := c.Pos % ft.NumOut()
		if ft.Out(k).Kind() == reflect.Interface {
			applicable = false
			break
		}
		vals := make([]interface{}, ft.NumOut())
		for i := range vals {
			vals[i] = vkit.Value(ft.Out(i), uint64(i+1)).Interface()
		}
		vals[k] = reflect.Zero(otherSize(ft.Out(k))).Interface()
		do = func() { b.Func(fn.Fn).Return(vals...) }
	case "returns-size", "returns-too-few":
		// a sequence given to Returns(...) whose element j is ill-formed; the elements before it are fine
		if ft.NumOut() == 0 || (c.Class == "returns-too-few" && ft.NumOut() < 2) {
			applicable = false
			break
		}
		n := 1 + c.K%4
		j := c.Pos % n
		var seq []interface{}
		for e := 0; e < n; e++ {
			vals := make([]interface{}, ft.NumOut())
			for i := range vals {
				vals[i] = vkit.Value(ft.Out(i), uint64(i+e+1)).Interface()
			}
			if e == j {
				if c.Class == "returns-size" {
					k := c.Pos % ft.NumOut()
					if ft.Out(k).Kind() == reflect.Interface {
						applicable = false
					}
					vals[k] = reflect.Zero(otherSize(ft.Out(k))).Interface()
				} else {
					vals = vals[:len(vals)-1]
				}
			}
			if ft.NumOut() == 1 && len(vals) == 1 {
				seq = append(seq, vals[0])
			} else {
				seq = append(seq, vals)
			}
		}
		if c.Class == "returns-too-few" && ft.NumOut() == 2 {
			// a one-element tuple for a two-result function is written as []interface{}{v}
		}
		do = func() { b.Func(fn.Fn).Returns(seq...) }
	case "method-ret-size", "method-returns-size", "method-when-too-few":
		t := corpus.Types[c.Fn%8] // exported types
		var m *corpus.Method
		for _, cand := range t.Methods {
			if cand.Exported {
				m = cand
				if c.K%2 == 0 {
					break
				}
			}
		}
		mt := m.FuncType
		argv := t.ValArg
		if m.Ptr {
			argv = t.PtrArg
		}
		methodBefore = m
		switch c.Class {
		case "method-when-too-few":
			if mt.NumIn() < 3 {
				applicable = false
				break
			}
			do = func() { b.Struct(argv).Method(m.Name).When(vkit.Value(mt.In(1), 1).Interface()).Return(valsOf(mt, -1)...) }
		case "method-ret-size":
			k := c.Pos % mt.NumOut()
			if mt.Out(k).Kind() == reflect.Interface {
				applicable = false
				break
			}
			do = func() { b.Struct(argv).Method(m.Name).Return(valsOf(mt, k)...) }
		default:
			k := c.Pos % mt.NumOut()
			if mt.Out(k).Kind() == reflect.Interface {
				applicable = false
				break
			}
			good, bad := valsOf(mt, -1), valsOf(mt, k)
			var e0, e1 interface{} = good, bad
			if mt.NumOut() == 1 {
				e0, e1 = good[0], bad[0]
			}
			do = func() { b.Struct(argv).Method(m.Name).Returns(e0, e1) }
		}
	case "iface-ret-size", "iface-returns-size":
		k := c.K % max1(cbt.NumOut())
		if cbt.NumOut() == 0 || cbt.Out(k).Kind() == reflect.Interface {
			applicable = false
			break
		}
		good, bad := valsOf(cbt, -1), valsOf(cbt, k)
		if c.Class == "iface-ret-size" {
			do = func() { b.Interface(ii.Var(0)).Method(im.Name).As(im.As).Return(bad...) }
		} else {
			var e0, e1 interface{} = good, bad
			if cbt.NumOut() == 1 {
				e0, e1 = good[0], bad[0]
			}
			do = func() { b.Interface(ii.Var(0)).Method(im.Name).As(im.As).Returns(e0, e1) }
		}
	case "unknown-method":
		t := corpus.Types[c.Fn%len(corpus.Types)]
		name := []string{"Nope", "Ge", "GetXYZW", "get ", ""}[c.K%5]
		do = func() { b.Struct(t.PtrArg).Method(name).Return(1) }
	case "unknown-symbol":
		name := []string{"nope", "F00", "F0000", "f000", "corpus.F000"}[c.K%5]
		do = func() { b.Pkg(corpus.PkgPath).ExportFunc(name).Apply(fn.MkRepl(rec)) }
	case "unknown-struct-method-by-name":
		t := corpus.Types[c.Fn%len(corpus.Types)]
		m := t.Methods[c.Pos%len(t.Methods)]
		name := []string{"nope", m.Name + "x", strings.ToUpper(m.Name) + "Q"}[c.K%3]
		do = func() { b.Pkg(corpus.PkgPath).ExportStruct("*" + t.Name).Method(name).Apply(m.MkRepl(rec)) }
	case "iface-non-pointer":
		vals := []interface{}{42, "x", struct{}{}, rec}
		v := vals[c.K%len(vals)]
		do = func() { b.Interface(v).Method(im.Name).Apply(im.MkCb(rec)) }
	case "iface-ptr-to-non-iface":
		x := 5
		st := struct{ A int }{1}
		vals := []interface{}{&x, &st, &rec}
		v := vals[c.K%len(vals)]
		do = func() { b.Interface(v).Method(im.Name).Apply(im.MkCb(rec)) }
	case "iface-cb-no-ctx":
		in := ins(cbt)[1:]
		do = func() { b.Interface(ii.Var(0)).Method(im.Name).Apply(mkFunc(in, outs(cbt), false)) }
	case "iface-cb-too-few":
		if cbt.NumIn() < 2 {
			applicable = false
			break
		}
		in := ins(cbt)
		in = in[:len(in)-1]
		do = func() { b.Interface(ii.Var(0)).Method(im.Name).Apply(mkFunc(in, outs(cbt), false)) }
	case "iface-cb-too-many":
		in := append(ins(cbt), reflect.TypeOf(0))
		do = func() { b.Interface(ii.Var(0)).Method(im.Name).Apply(mkFunc(in, outs(cbt), false)) }
	case "iface-cb-results":
		out := append(outs(cbt), reflect.TypeOf(0))
		if c.K%2 == 0 && len(out) >= 2 {
			out = out[:len(out)-2]
		}
		do = func() { b.Interface(ii.Var(0)).Method(im.Name).Apply(mkFunc(ins(cbt), out, false)) }
	case "iface-unknown-method":
		do = func() { b.Interface(ii.Var(0)).Method(im.Name + "Zz").Apply(im.MkCb(rec)) }
	default:
		return fmt.Errorf("unknown class %q", c.Class)
	}
	if !applicable {
		s.Exclude("class-not-applicable-to-this-signature/" + c.Class)
		return nil
	}
	pv := guard(do)
	what := fmt.Sprintf("mistake %s (fn %s %s, pos %d, k %d)", c.Class, fn.Name, ft, c.Pos, c.K)
	if pv == nil {
		return fmt.Errorf("%s: the configuration call was accepted (no panic, no error)", what)
	}
	if _, isRuntime := pv.(runtime.Error); isRuntime {
		// rejected by a run-time panic inside the configuration call (e.g. a callback without any parameter): still
		// "a panic at configuration time"; there is no goom error whose chain could be walked
		s.Class("rejected-with-runtime-panic")
	} else if e, ok := pv.(error); ok {
		// the cause chain must be walkable
		found := ""
		steps := 0
		next := func(e error) error {
			// walk with the errors' own Cause methods (erro.Cause only follows errors that also carry a stack trace)
			if c, ok := e.(interface{ Cause() error }); ok {
				return c.Cause()
			}
			return erro.Cause(e)
		}
		for cur := e; cur != nil; cur = next(cur) {
			steps++
			if steps > 64 {
				return fmt.Errorf("%s: the error's cause chain does not terminate", what)
			}
			found += fmt.Sprintf("%T;", cur)
		}
		if want := typedCause(c.Class); want != "" && !strings.Contains(found, want+";") {
			return fmt.Errorf("%s: rejected with cause chain [%s], which never reaches the typed cause %s", what, found, want)
		}
		s.Class("rejected-with-error-chain")
	} else {
		if want := typedCause(c.Class); want != "" && c.Class != "iface-cb-no-ctx" {
			return fmt.Errorf("%s: rejected with a %T panic (%v), want an error whose chain reaches %s", what, pv, pv, want)
		}
		s.Class("rejected-with-plain-panic")
	}
	// nothing may be left patched
	if d := img.Diff(); len(d) != len(diffBefore) {
		return fmt.Errorf("%s: rejected, but the executable image changed: %s", what, img.Describe(d))
	}
	before := origRan(fn)
	args := make([]reflect.Value, ft.NumIn())
	for i := range args {
		args[i] = vkit.Value(ft.In(i), uint64(i)+2)
	}
	if pv := guard(func() { fn.Call(corpus.FormDirect, args) }); pv != nil {
		return fmt.Errorf("%s: after the rejected call the target panics when called: %v", what, pv)
	}
	if origRan(fn)-before != 1 {
		return fmt.Errorf("%s: after the rejected call the target no longer runs its original body (left mocked)", what)
	}
	if methodBefore != nil {
		ran := *methodBefore.Ran
		margs := make([]reflect.Value, methodBefore.FuncType.NumIn()-1)
		for i := range margs {
			margs[i] = vkit.Value(methodBefore.FuncType.In(i+1), uint64(i)+1)
		}
		if pv := guard(func() { methodBefore.Call(0, margs) }); pv != nil || *methodBefore.Ran-ran != 1 {
			return fmt.Errorf("%s: after the rejected call method %s.%s no longer runs its original body (panic %v)", what, methodBefore.Type.Name, methodBefore.Name, pv)
		}
	}
	if strings.HasPrefix(c.Class, "iface-") && ii.Words(0) != wordsBefore {
		return fmt.Errorf("%s: rejected, but the interface variable was changed", what)
	}
	if pv := guard(func() { b.Reset() }); pv != nil {
		return fmt.Errorf("%s: Reset after the rejected call panicked: %v", what, pv)
	}
	s.Class("class/" + c.Class)
	s.NonTrivial(fmt.Sprintf("%s/%d/%d/%d", c.Class, c.Fn%len(corpus.Fns), c.Pos, c.K))
	s.Sample(c)
	return nil
}

func TestVerifC13(t *testing.T) {
	if f, err := os.OpenFile(os.DevNull, os.O_WRONLY, 0); err == nil && os.Getenv("VERIF_VERBOSE") == "" {
		os.Stdout = f
	}
	img = vkit.SnapshotText()
	p := &vkit.Prop{ID: "C13", Unit: "mistakes", New: func() interface{} { return &mistake{} },
		Gen: func(rt *rapid.T) interface{} {
			return &mistake{Class: rapid.SampledFrom(classes).Draw(rt, "class"), Fn: rapid.IntRange(0, len(corpus.Fns)-1).Draw(rt, "fn"),
				Pos: rapid.IntRange(0, 20).Draw(rt, "pos"), K: rapid.IntRange(0, 20).Draw(rt, "k")}
		},
		Run: runMistake}
	s := p.Main(t, vkit.Scale(4500, 40000))
	if !vkit.Replaying() {
		s.Done()
	}
}
