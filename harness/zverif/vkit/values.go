//go:build go1.18
// +build go1.18

package vkit

import (
	"errors"
	"fmt"
	"math"
	"reflect"
	"unsafe"
)

// Value builds a value of type t from a "value code" — a pure function, so a
// case that stores codes is replayable. Code 0 is the zero value, small codes
// select boundary values, large codes pseudo-random ones. Every call builds
// fresh storage: two calls with the same code give equal contents behind
// *distinct* pointers / slice arrays / maps (what "a copy of x" means).
func Value(t reflect.Type, code uint64) reflect.Value {
	return buildValue(t, code, 0)
}

func mix(a, b uint64) uint64 {
	x := a*0x9e3779b97f4a7c15 + b + 0x632be59bd9b4e019
	x ^= x >> 30
	x *= 0xbf58476d1ce4e5b9
	x ^= x >> 27
	x *= 0x94d049bb133111eb
	x ^= x >> 31
	return x
}

// sub derives the code of a component; biased towards small (boundary) codes.
func sub(code uint64, i int) uint64 {
	m := mix(code, uint64(i)+1)
	if code <= 40 {
		// boundary parents get boundary children, shifted so that fields differ
		return (code + uint64(i)*3) % 41
	}
	if m%3 == 0 {
		return m >> 8 % 41
	}
	return m
}

var intBoundary = []int64{0, 1, -1, 2, math.MaxInt64, math.MinInt64, math.MaxInt32, math.MinInt32, math.MaxInt16, math.MinInt16,
	math.MaxInt8, math.MinInt8, 255, 256, 65535, 65536, math.MaxUint32, 1 << 32, 1 << 31, -(1 << 31) - 1, 3, 7, 10, 100, 1000, 42,
	-2, 1 << 52, 1<<53 + 1, 1 << 62, -(1 << 62), 0x0102030405060708, 5, 4, 13, 77, 99, 12345, -12345, 1 << 40, -(1 << 40)}

var floatBoundary = []float64{0, 1, -1, 0.5, math.MaxFloat64, math.SmallestNonzeroFloat64, math.Inf(1), math.Inf(-1), math.NaN(),
	math.Copysign(0, -1), 1e-320, math.MaxFloat32, math.SmallestNonzeroFloat32, 0.1, 0.2, 0.30000000000000004, 1e100, -1e100, 3.14159,
	2.718281828, 1 << 53, 1<<53 + 2, 100, 1e6, 123456789.125, -0.5, 1.5, 2, 3, 1e-10, 16777216, 16777217, 0.1 + 0.2, 1e21, 1e20,
	math.Float64frombits(0x7ff8000000000001), math.Float64frombits(0xfff8000000000000), 4, 5, 10, 1e-7}

var stringBoundary = []string{"", "a", "b", " ", "0", "1", "true", "false", "nil", "<nil>", "a\x00b", "é", "日本語", "0x10", "1.0", "-1",
	"%v", "%!s(MISSING)", "ab", "abc", "A", "aa", "\n", "\t", "1e3", "NaN", "Inf", "[]", "{}", "null", "x y", "xyz", "hello", "world",
	"0.0", "00", "+1", "t", "f", "T", "F"}

// E is a comparable error type with a pointer receiver.
type E struct{ Code int }

func (e *E) Error() string { return fmt.Sprintf("E%d", e.Code) }

// EV is an error type with a value receiver.
type EV struct{ Msg string }

func (e EV) Error() string { return e.Msg }

// Small is a small comparable struct (fits in registers).
type Small struct {
	A int32
	B bool
	C string
}

// WithUnexported has unexported pointer / interface fields.
type WithUnexported struct {
	X int
	p *int
	i interface{}
	s []byte
}

// Node is a self-referential structure (rings, parent links).
type Node struct {
	V    int
	Next *Node
	Up   *Node
}

var funcPools = map[reflect.Type][]reflect.Value{}

// RegisterFuncs provides the pool of distinct top-level functions used as values of their func type.
func RegisterFuncs(fs ...interface{}) {
	for _, f := range fs {
		v := reflect.ValueOf(f)
		funcPools[v.Type()] = append(funcPools[v.Type()], v)
	}
}

func fnA()           {}
func fnB()           {}
func fnC()           {}
func fiA(x int) int  { return x + 1 }
func fiB(x int) int  { return x + 2 }
func fiC(x int) int  { return x * 3 }
func fsA(s string) error { return errors.New(s) }
func fsB(s string) error { return nil }

func init() {
	RegisterFuncs(fnA, fnB, fnC, fiA, fiB, fiC, fsA, fsB)
}

var dynTypes = []reflect.Type{
	reflect.TypeOf(int(0)), reflect.TypeOf(""), reflect.TypeOf(float64(0)), reflect.TypeOf(true), reflect.TypeOf((*int)(nil)),
	reflect.TypeOf(Small{}), reflect.TypeOf([]int(nil)), reflect.TypeOf(map[string]int(nil)), reflect.TypeOf(int8(0)),
	reflect.TypeOf(uint64(0)), reflect.TypeOf((*Small)(nil)), reflect.TypeOf([2]int{}), reflect.TypeOf(float32(0)),
	reflect.TypeOf(func() {}), reflect.TypeOf(&E{}), reflect.TypeOf(EV{}),
}

var errType = reflect.TypeOf((*error)(nil)).Elem()
var errDyn = []reflect.Type{reflect.TypeOf(&E{}), reflect.TypeOf(EV{})}

// DynTypeFor returns the dynamic type an interface-typed value built from `code` holds (nil for a nil interface).
func DynTypeFor(t reflect.Type, code uint64) reflect.Type {
	if code == 0 {
		return nil
	}
	pool := dynTypes
	if t.NumMethod() > 0 {
		if !reflect.TypeOf(&E{}).Implements(t) {
			return nil
		}
		pool = errDyn
	}
	return pool[int(mix(code, 77)%uint64(len(pool)))]
}

func buildValue(t reflect.Type, code uint64, depth int) reflect.Value {
	v := reflect.New(t).Elem()
	if code == 0 {
		return v
	}
	switch t.Kind() {
	case reflect.Bool:
		v.SetBool(code%2 == 1)
	case reflect.Int, reflect.Int8, reflect.Int16, reflect.Int32, reflect.Int64:
		var x int64
		if code < uint64(len(intBoundary)) {
			x = intBoundary[code]
		} else {
			x = int64(mix(code, 1))
			switch mix(code, 2) % 4 {
			case 0:
				x %= 1000
			case 1:
				x %= 1 << 20
			}
		}
		v.SetInt(truncInt(x, t.Bits()))
	case reflect.Uint, reflect.Uint8, reflect.Uint16, reflect.Uint32, reflect.Uint64, reflect.Uintptr:
		var x uint64
		if code < uint64(len(intBoundary)) {
			x = uint64(intBoundary[code])
		} else {
			x = mix(code, 1)
			if mix(code, 2)%3 == 0 {
				x %= 1000
			}
		}
		if t.Bits() < 64 {
			x &= (1 << uint(t.Bits())) - 1
		}
		v.SetUint(x)
	case reflect.Float32, reflect.Float64:
		var f float64
		if code < uint64(len(floatBoundary)) {
			f = floatBoundary[code]
		} else {
			switch mix(code, 3) % 3 {
			case 0:
				f = math.Float64frombits(mix(code, 1))
			case 1:
				f = float64(int64(mix(code, 1))%100000) / 8
			default:
				f = float64(int64(mix(code, 1)) % 1000)
			}
		}
		if t.Kind() == reflect.Float32 {
			f = float64(float32(f))
		}
		v.SetFloat(f)
	case reflect.Complex64, reflect.Complex128:
		re := buildValue(reflect.TypeOf(float64(0)), sub(code, 0), depth+1).Float()
		im := buildValue(reflect.TypeOf(float64(0)), sub(code, 1), depth+1).Float()
		v.SetComplex(complex(re, im))
	case reflect.String:
		if code < uint64(len(stringBoundary)) {
			v.SetString(stringBoundary[code])
		} else {
			n := int(mix(code, 1) % 24)
			b := make([]byte, n)
			for i := range b {
				b[i] = byte('a' + mix(code, uint64(i)+5)%26)
			}
			v.SetString(string(b))
		}
	case reflect.Ptr:
		p := reflect.New(t.Elem())
		if depth < 4 {
			p.Elem().Set(buildValue(t.Elem(), sub(code, 0), depth+1))
		}
		if t == reflect.TypeOf((*Node)(nil)) && code%5 == 3 {
			n := p.Interface().(*Node)
			n.Next = n // ring
			n.Up = n
		}
		v.Set(p)
	case reflect.Slice:
		n := int(mix(code, 1) % 5)
		if code <= 40 {
			n = int(code % 4)
		}
		s := reflect.MakeSlice(t, n, n+int(code%3))
		if depth < 4 {
			for i := 0; i < n; i++ {
				s.Index(i).Set(buildValue(t.Elem(), sub(code, i), depth+1))
			}
		}
		v.Set(s)
	case reflect.Array:
		if depth < 4 {
			for i := 0; i < t.Len(); i++ {
				v.Index(i).Set(buildValue(t.Elem(), sub(code, i), depth+1))
			}
		}
	case reflect.Map:
		m := reflect.MakeMap(t)
		n := int(mix(code, 1) % 4)
		if code <= 40 {
			n = int(code % 3)
		}
		if depth < 4 {
			for i := 0; i < n; i++ {
				k := buildValue(t.Key(), sub(code, 2*i)+1, depth+1)
				if !validKey(k) {
					continue
				}
				m.SetMapIndex(k, buildValue(t.Elem(), sub(code, 2*i+1), depth+1))
			}
		}
		v.Set(m)
	case reflect.Struct:
		if depth < 4 {
			for i := 0; i < t.NumField(); i++ {
				f := v.Field(i)
				fv := buildValue(f.Type(), sub(code, i), depth+1)
				if f.CanSet() {
					f.Set(fv)
				} else {
					// unexported field: write through unsafe
					reflect.NewAt(f.Type(), unsafe.Pointer(f.UnsafeAddr())).Elem().Set(fv)
				}
			}
		}
	case reflect.Interface:
		dt := DynTypeFor(t, code)
		if dt == nil {
			return v
		}
		dc := sub(code, 9)
		if mix(code, 11)%6 == 0 {
			dc = 0 // typed nil / typed zero inside the interface
		}
		v.Set(buildValue(dt, dc, depth+1))
	case reflect.Func:
		pool := funcPools[t]
		if len(pool) == 0 {
			return v
		}
		v.Set(pool[int((code-1)%uint64(len(pool)))])
	case reflect.Chan:
		v.Set(reflect.MakeChan(t, int(code%3)))
	case reflect.UnsafePointer:
		x := new(int)
		v.SetPointer(unsafe.Pointer(x))
	}
	return v
}

func truncInt(x int64, bits int) int64 {
	switch bits {
	case 8:
		return int64(int8(x))
	case 16:
		return int64(int16(x))
	case 32:
		return int64(int32(x))
	}
	return x
}

func validKey(k reflect.Value) bool {
	switch k.Kind() {
	case reflect.Float32, reflect.Float64:
		return !math.IsNaN(k.Float())
	case reflect.Interface:
		if k.IsNil() {
			return true
		}
		return k.Elem().Type().Comparable()
	}
	return true
}

// HasNaN reports whether v contains a NaN anywhere (floats, nested).
func HasNaN(v reflect.Value) bool { return scan(v, func(f float64) bool { return math.IsNaN(f) }, 0) }

// HasNegZero reports whether v contains a negative zero anywhere.
func HasNegZero(v reflect.Value) bool {
	return scan(v, func(f float64) bool { return f == 0 && math.Signbit(f) }, 0)
}

func scan(v reflect.Value, pred func(float64) bool, depth int) bool {
	if !v.IsValid() || depth > 6 {
		return false
	}
	switch v.Kind() {
	case reflect.Float32, reflect.Float64:
		return pred(v.Float())
	case reflect.Complex64, reflect.Complex128:
		return pred(real(v.Complex())) || pred(imag(v.Complex()))
	case reflect.Ptr, reflect.Interface:
		if v.IsNil() {
			return false
		}
		return scan(v.Elem(), pred, depth+1)
	case reflect.Slice, reflect.Array:
		for i := 0; i < v.Len(); i++ {
			if scan(v.Index(i), pred, depth+1) {
				return true
			}
		}
	case reflect.Map:
		it := v.MapRange()
		for it.Next() {
			if scan(it.Key(), pred, depth+1) || scan(it.Value(), pred, depth+1) {
				return true
			}
		}
	case reflect.Struct:
		for i := 0; i < v.NumField(); i++ {
			if scan(v.Field(i), pred, depth+1) {
				return true
			}
		}
	}
	return false
}

// Same is the bit-exact comparator of DESIGN.md 3/C01: floats by bit pattern,
// pointers/maps/chans/funcs by identity, slices by header, strings by content,
// interfaces by dynamic type and then recursively, structs/arrays field-wise.
func Same(a, b reflect.Value) bool {
	if a.IsValid() != b.IsValid() {
		return false
	}
	if !a.IsValid() {
		return true
	}
	if a.Type() != b.Type() {
		return false
	}
	switch a.Kind() {
	case reflect.Bool:
		return a.Bool() == b.Bool()
	case reflect.Int, reflect.Int8, reflect.Int16, reflect.Int32, reflect.Int64:
		return a.Int() == b.Int()
	case reflect.Uint, reflect.Uint8, reflect.Uint16, reflect.Uint32, reflect.Uint64, reflect.Uintptr:
		return a.Uint() == b.Uint()
	case reflect.Float32:
		return math.Float32bits(float32(a.Float())) == math.Float32bits(float32(b.Float()))
	case reflect.Float64:
		return math.Float64bits(a.Float()) == math.Float64bits(b.Float())
	case reflect.Complex64, reflect.Complex128:
		x, y := a.Complex(), b.Complex()
		return math.Float64bits(real(x)) == math.Float64bits(real(y)) && math.Float64bits(imag(x)) == math.Float64bits(imag(y))
	case reflect.String:
		return a.String() == b.String()
	case reflect.Ptr, reflect.Map, reflect.Chan, reflect.UnsafePointer:
		return a.Pointer() == b.Pointer()
	case reflect.Func:
		if a.IsNil() || b.IsNil() {
			return a.IsNil() == b.IsNil()
		}
		return a.Pointer() == b.Pointer()
	case reflect.Slice:
		if a.IsNil() != b.IsNil() {
			return false
		}
		return a.Pointer() == b.Pointer() && a.Len() == b.Len() && a.Cap() == b.Cap()
	case reflect.Interface:
		if a.IsNil() || b.IsNil() {
			return a.IsNil() == b.IsNil()
		}
		return Same(a.Elem(), b.Elem())
	case reflect.Array:
		for i := 0; i < a.Len(); i++ {
			if !Same(a.Index(i), b.Index(i)) {
				return false
			}
		}
		return true
	case reflect.Struct:
		for i := 0; i < a.NumField(); i++ {
			if !Same(a.Field(i), b.Field(i)) {
				return false
			}
		}
		return true
	}
	return false
}

// Describe renders a value for messages and samples without following cycles far.
func Describe(v reflect.Value) string {
	if !v.IsValid() {
		return "<invalid>"
	}
	return describe(v, 0)
}

func describe(v reflect.Value, depth int) string {
	if depth > 3 {
		return "..."
	}
	switch v.Kind() {
	case reflect.Ptr:
		if v.IsNil() {
			return "(" + v.Type().String() + ")(nil)"
		}
		return "&" + describe(v.Elem(), depth+1)
	case reflect.Interface:
		if v.IsNil() {
			return "nil-" + v.Type().String()
		}
		return v.Type().String() + "(" + describe(v.Elem(), depth+1) + ")"
	case reflect.Func:
		if v.IsNil() {
			return "func(nil)"
		}
		return fmt.Sprintf("func@%#x", v.Pointer())
	case reflect.Float32, reflect.Float64:
		return fmt.Sprintf("%v[%#x]", v.Float(), math.Float64bits(v.Float()))
	case reflect.Struct:
		s := v.Type().String() + "{"
		for i := 0; i < v.NumField(); i++ {
			if i > 0 {
				s += " "
			}
			s += describe(v.Field(i), depth+1)
		}
		return s + "}"
	case reflect.Slice:
		if v.IsNil() {
			return v.Type().String() + "(nil)"
		}
		s := "["
		for i := 0; i < v.Len() && i < 6; i++ {
			if i > 0 {
				s += " "
			}
			s += describe(v.Index(i), depth+1)
		}
		return s + "]"
	case reflect.Array:
		s := "["
		for i := 0; i < v.Len() && i < 6; i++ {
			if i > 0 {
				s += " "
			}
			s += describe(v.Index(i), depth+1)
		}
		return s + "]"
	case reflect.Map:
		if v.IsNil() {
			return v.Type().String() + "(nil)"
		}
		return fmt.Sprintf("map[%d entries]", v.Len())
	case reflect.Chan, reflect.UnsafePointer:
		return fmt.Sprintf("%s@%#x", v.Type(), v.Pointer())
	case reflect.String:
		return fmt.Sprintf("%q", v.String())
	}
	if v.CanInterface() {
		return fmt.Sprintf("%v", v.Interface())
	}
	return fmt.Sprintf("%v", v)
}

// Perturb returns a deep copy of v in which one leaf is changed minimally (an integer by +-1, a float to the next
// representable value, a string by one character, a bool flipped; the leaf is chosen by seed). Structure, lengths and
// nil-ness are kept. ok=false when v has no perturbable leaf.
func Perturb(v reflect.Value, seed uint64) (out reflect.Value, ok bool) {
	out = deepCopy(v, map[uintptr]reflect.Value{})
	leaves := collectLeaves(out, nil, 0, map[uintptr]bool{})
	if len(leaves) == 0 {
		return out, false
	}
	l := leaves[int(seed%uint64(len(leaves)))]
	up := (seed>>8)%2 == 0
	switch l.Kind() {
	case reflect.Bool:
		l.SetBool(!l.Bool())
	case reflect.Int, reflect.Int8, reflect.Int16, reflect.Int32, reflect.Int64:
		x := l.Int()
		if up {
			x++
		} else {
			x--
		}
		l.SetInt(truncInt(x, l.Type().Bits()))
	case reflect.Uint, reflect.Uint8, reflect.Uint16, reflect.Uint32, reflect.Uint64, reflect.Uintptr:
		x := l.Uint()
		if up {
			x++
		} else {
			x--
		}
		if b := l.Type().Bits(); b < 64 {
			x &= (1 << uint(b)) - 1
		}
		l.SetUint(x)
	case reflect.Float32:
		f := float32(l.Float())
		if f != f {
			f = 0
		}
		dir := float32(math.Inf(1))
		if !up {
			dir = float32(math.Inf(-1))
		}
		l.SetFloat(float64(math.Nextafter32(f, dir)))
	case reflect.Float64:
		f := l.Float()
		if f != f {
			f = 0
		}
		dir := math.Inf(1)
		if !up {
			dir = math.Inf(-1)
		}
		l.SetFloat(math.Nextafter(f, dir))
	case reflect.String:
		s := l.String()
		switch {
		case s == "":
			l.SetString("a")
		case up:
			l.SetString(s + " ")
		default:
			b := []byte(s)
			b[len(b)-1] ^= 1
			l.SetString(string(b))
		}
	}
	return out, true
}

func deepCopy(v reflect.Value, seen map[uintptr]reflect.Value) reflect.Value {
	out := reflect.New(v.Type()).Elem()
	switch v.Kind() {
	case reflect.Ptr:
		if !v.IsNil() {
			if c, ok := seen[v.Pointer()]; ok && c.Type() == v.Type() {
				out.Set(c) // cyclic structures keep their shape
				break
			}
			p := reflect.New(v.Type().Elem())
			seen[v.Pointer()] = p
			p.Elem().Set(deepCopy(v.Elem(), seen))
			out.Set(p)
		}
	case reflect.Slice:
		if !v.IsNil() {
			s := reflect.MakeSlice(v.Type(), v.Len(), v.Cap())
			for i := 0; i < v.Len(); i++ {
				s.Index(i).Set(deepCopy(v.Index(i), seen))
			}
			out.Set(s)
		}
	case reflect.Array:
		for i := 0; i < v.Len(); i++ {
			out.Index(i).Set(deepCopy(v.Index(i), seen))
		}
	case reflect.Map:
		if !v.IsNil() {
			m := reflect.MakeMap(v.Type())
			it := v.MapRange()
			for it.Next() {
				m.SetMapIndex(it.Key(), deepCopy(it.Value(), seen))
			}
			out.Set(m)
		}
	case reflect.Struct:
		for i := 0; i < v.NumField(); i++ {
			src, dst := v.Field(i), out.Field(i)
			if !dst.CanSet() {
				src = reflect.NewAt(src.Type(), unsafe.Pointer(v.Field(i).UnsafeAddr())).Elem()
				dst = reflect.NewAt(dst.Type(), unsafe.Pointer(dst.UnsafeAddr())).Elem()
			}
			dst.Set(deepCopy(src, seen))
		}
	case reflect.Interface:
		if !v.IsNil() {
			out.Set(deepCopy(v.Elem(), seen))
		}
	default:
		out.Set(v)
	}
	return out
}

func collectLeaves(v reflect.Value, acc []reflect.Value, depth int, seen map[uintptr]bool) []reflect.Value {
	if depth > 5 {
		return acc
	}
	if v.Kind() == reflect.Ptr && !v.IsNil() {
		if seen[v.Pointer()] {
			return acc
		}
		seen[v.Pointer()] = true
	}
	switch v.Kind() {
	case reflect.Bool, reflect.String, reflect.Float32, reflect.Float64,
		reflect.Int, reflect.Int8, reflect.Int16, reflect.Int32, reflect.Int64,
		reflect.Uint, reflect.Uint8, reflect.Uint16, reflect.Uint32, reflect.Uint64, reflect.Uintptr:
		if v.CanSet() {
			acc = append(acc, v)
		}
	case reflect.Ptr:
		if !v.IsNil() {
			acc = collectLeaves(v.Elem(), acc, depth+1, seen)
		}
	case reflect.Slice, reflect.Array:
		for i := 0; i < v.Len(); i++ {
			acc = collectLeaves(v.Index(i), acc, depth+1, seen)
		}
	case reflect.Struct:
		for i := 0; i < v.NumField(); i++ {
			f := v.Field(i)
			if !f.CanSet() && f.CanAddr() {
				f = reflect.NewAt(f.Type(), unsafe.Pointer(f.UnsafeAddr())).Elem()
			}
			acc = collectLeaves(f, acc, depth+1, seen)
		}
	}
	return acc
}
