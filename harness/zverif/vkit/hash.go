//go:build go1.18
// +build go1.18

package vkit

import (
	"math"
	"reflect"
	"strconv"
	"sync/atomic"
)

var sink uint64

// Sink keeps a value alive / gives bodies a side effect.
func Sink(v uint64) { atomic.AddUint64(&sink, v) }

// SinkValue returns the accumulated sink (a global side effect observable by tests).
func SinkValue() uint64 { return atomic.LoadUint64(&sink) }

// HashArgs is a deterministic content hash of the arguments (addresses do not
// take part: pointers are hashed by pointee, maps by content, funcs and chans
// by nil-ness), so an original body computes the same result for equal inputs.
func HashArgs(id int, args ...interface{}) uint64 {
	h := mix(uint64(id)+1, 0x1234)
	for i, a := range args {
		h = mix(h, hashValue(reflect.ValueOf(a), 0)+uint64(i))
	}
	return h
}

func hashValue(v reflect.Value, depth int) uint64 {
	if !v.IsValid() {
		return 7
	}
	if depth > 5 {
		return 11
	}
	switch v.Kind() {
	case reflect.Bool:
		if v.Bool() {
			return 3
		}
		return 5
	case reflect.Int, reflect.Int8, reflect.Int16, reflect.Int32, reflect.Int64:
		return mix(uint64(v.Int()), 1)
	case reflect.Uint, reflect.Uint8, reflect.Uint16, reflect.Uint32, reflect.Uint64, reflect.Uintptr:
		return mix(v.Uint(), 2)
	case reflect.Float32, reflect.Float64:
		return mix(math.Float64bits(v.Float()), 3)
	case reflect.Complex64, reflect.Complex128:
		c := v.Complex()
		return mix(math.Float64bits(real(c)), math.Float64bits(imag(c)))
	case reflect.String:
		h := uint64(len(v.String()))
		for _, b := range []byte(v.String()) {
			h = h*1099511628211 ^ uint64(b)
		}
		return mix(h, 4)
	case reflect.Ptr, reflect.Interface:
		if v.IsNil() {
			return 13
		}
		return mix(hashValue(v.Elem(), depth+1), 5)
	case reflect.Slice:
		if v.IsNil() {
			return 17
		}
		fallthrough
	case reflect.Array:
		h := uint64(v.Len()) + 19
		for i := 0; i < v.Len() && i < 64; i++ {
			h = mix(h, hashValue(v.Index(i), depth+1))
		}
		return h
	case reflect.Map:
		if v.IsNil() {
			return 23
		}
		var h uint64 = 29
		it := v.MapRange()
		for it.Next() {
			h += mix(hashValue(it.Key(), depth+1), hashValue(it.Value(), depth+1)) // order independent
		}
		return mix(h, uint64(v.Len()))
	case reflect.Struct:
		var h uint64 = 31
		for i := 0; i < v.NumField(); i++ {
			h = mix(h, hashValue(v.Field(i), depth+1))
		}
		return h
	case reflect.Func, reflect.Chan, reflect.UnsafePointer:
		if v.IsNil() {
			return 37
		}
		return 41
	}
	return 43
}

// ContentEqual compares two values by content (pointers by pointee, maps by entries, funcs/chans/unsafe pointers
// by nil-ness): the equality under which two runs of a deterministic function that allocates fresh objects agree.
func ContentEqual(a, b reflect.Value) bool {
	if a.IsValid() != b.IsValid() {
		return false
	}
	if !a.IsValid() {
		return true
	}
	return a.Type() == b.Type() && hashValue(a, 0) == hashValue(b, 0)
}

// ContentKey renders a value as "type#contenthash" (address independent), for transcripts.
func ContentKey(v reflect.Value) string {
	if !v.IsValid() {
		return "<invalid>"
	}
	return v.Type().String() + "#" + strconv.FormatUint(hashValue(v, 0), 16)
}
