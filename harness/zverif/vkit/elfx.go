//go:build go1.18
// +build go1.18

package vkit

import (
	"debug/elf"
	"debug/gosym"
	"fmt"
	"os"
	"sort"
)

// Func is one function of a Go ELF binary (extent from the pclntab).
type Func struct {
	Name  string
	Entry uint64
	End   uint64
}

// Image is the executable text of a Go ELF binary with its function table.
type Image struct {
	Path     string
	TextAddr uint64
	Text     []byte
	Funcs    []Func
	Symbols  []elf.Symbol // .symtab, may be empty (stripped)
	Type     elf.Type
	// TextStartDelta is runtime.text minus the address of .text (non-zero with external linking)
	TextStartDelta uint64
	// pcln is the raw pclntab section, pclnText the link-time address its entry offsets are relative to
	pcln     []byte
	pclnText uint64
}

// LoadImage reads .text, the pclntab function table and .symtab of a Go binary.
func LoadImage(path string) (*Image, error) {
	f, err := os.Open(path)
	if err != nil {
		return nil, err
	}
	defer f.Close()
	ef, err := elf.NewFile(f)
	if err != nil {
		return nil, err
	}
	im := &Image{Path: path, Type: ef.Type}
	ts := ef.Section(".text")
	if ts == nil {
		return nil, fmt.Errorf("%s: no .text", path)
	}
	im.TextAddr = ts.Addr
	if im.Text, err = ts.Data(); err != nil {
		return nil, err
	}
	ps := ef.Section(".gopclntab")
	if ps == nil {
		ps = ef.Section(".data.rel.ro.gopclntab") // position-independent executables
	}
	if ps != nil {
		pd, err := ps.Data()
		if err != nil {
			return nil, err
		}
		im.pcln, im.pclnText = pd, ts.Addr
		tab, err := gosym.NewTable(nil, gosym.NewLineTable(pd, ts.Addr))
		if err != nil {
			return nil, fmt.Errorf("%s: pclntab: %v", path, err)
		}
		// position-independent executables carry a zero text start in the pclntab header (it is relocated
		// at load time): entries are then offsets from the start of .text
		var rebase uint64
		if n := len(tab.Funcs); n > 0 && tab.Funcs[n-1].End <= uint64(len(im.Text)) && ts.Addr > uint64(len(im.Text)) {
			rebase = ts.Addr
		}
		// debug/gosym takes the text start it is given (.text) instead of the one in the table's header; with external
		// linking runtime.text lies a little after the start of .text (C start-up code): use the header's value
		if len(pd) >= 32 && pd[7] == 8 {
			hdr := uint64(0)
			for i := 0; i < 8; i++ {
				hdr |= uint64(pd[24+i]) << (8 * uint(i))
			}
			if hdr > ts.Addr && hdr < ts.Addr+uint64(len(im.Text)) {
				rebase += hdr - ts.Addr
				im.TextStartDelta = hdr - ts.Addr
				im.pclnText = hdr
			}
		}
		for i := range tab.Funcs {
			fn := &tab.Funcs[i]
			fn.Entry += rebase
			fn.End += rebase
			if fn.Entry < ts.Addr || fn.End > ts.Addr+uint64(len(im.Text)) || fn.End <= fn.Entry {
				continue
			}
			im.Funcs = append(im.Funcs, Func{Name: fn.Name, Entry: fn.Entry, End: fn.End})
		}
		sort.Slice(im.Funcs, func(i, j int) bool { return im.Funcs[i].Entry < im.Funcs[j].Entry })
	}
	if syms, err := ef.Symbols(); err == nil {
		im.Symbols = syms
	}
	return im, nil
}

// Bytes returns the code bytes of f.
func (im *Image) Bytes(f Func) []byte {
	return im.Text[f.Entry-im.TextAddr : f.End-im.TextAddr]
}

// FuncAt finds the function containing addr.
func (im *Image) FuncAt(addr uint64) (Func, bool) {
	i := sort.Search(len(im.Funcs), func(i int) bool { return im.Funcs[i].End > addr })
	if i < len(im.Funcs) && im.Funcs[i].Entry <= addr {
		return im.Funcs[i], true
	}
	return Func{}, false
}

// FuncByName finds a function by its pclntab name.
func (im *Image) FuncByName(name string) (Func, bool) {
	for _, f := range im.Funcs {
		if f.Name == name {
			return f, true
		}
	}
	return Func{}, false
}
