//go:build go1.18
// +build go1.18

// Package vkit is the shared kit of the /verif harness: per-run statistics
// (what was generated, how much of it was non-trivial), failure recording and
// replay files, the rapid runner, the text-image observer and value generators.
// It is copied into a scratch copy of the repository at check time; nothing of
// it lives in /repo.
package vkit

import (
	"crypto/sha256"
	"encoding/hex"
	"encoding/json"
	"fmt"
	"hash/fnv"
	"os"
	"path/filepath"
	"sort"
	"strconv"
	"strings"
	"sync"
)

// Tier returns "quick" or "thorough".
func Tier() string {
	if os.Getenv("VERIF_TIER") == "thorough" {
		return "thorough"
	}
	return "quick"
}

// Thorough reports whether the thorough tier runs.
func Thorough() bool { return Tier() == "thorough" }

// Scale picks a bound by tier.
func Scale(quick, thorough int) int {
	if Thorough() {
		return thorough
	}
	return quick
}

// Seed is the run's only source of randomness (already shard-adjusted by the driver).
func Seed() uint64 {
	s, _ := strconv.ParseUint(os.Getenv("VERIF_SEED"), 10, 64)
	if s == 0 {
		s = 1
	}
	return s
}

// Shard returns this process' shard index and the number of shards.
func Shard() (int, int) {
	i, _ := strconv.Atoi(os.Getenv("VERIF_SHARD"))
	n, _ := strconv.Atoi(os.Getenv("VERIF_NSHARDS"))
	if n <= 0 {
		n = 1
	}
	return i, n
}

// OutDir is where statistics, journals and replay files are written.
func OutDir() string {
	d := os.Getenv("VERIF_OUT")
	if d == "" {
		d = os.TempDir()
	}
	return d
}

// KnownOpen reports whether the known finding `key` is listed as open: its
// class is then excluded by construction and its probe reports KNOWN-FINDING.
func KnownOpen(key string) bool {
	for _, k := range strings.Split(os.Getenv("VERIF_KNOWN_OPEN"), ",") {
		if k == key {
			return true
		}
	}
	return false
}

// Violation is one failed case together with its replay file.
type Violation struct {
	Message string `json:"message"`
	Replay  string `json:"replay"`
}

// Known is a deterministic probe of a listed finding that still fails.
type Known struct {
	Key     string `json:"key"`
	Message string `json:"message"`
}

// Stats is what one unit of one shard measured.
type Stats struct {
	mu sync.Mutex

	Property    string            `json:"property"`
	Unit        string            `json:"unit"`
	Shard       int               `json:"shard"`
	Evaluations int64             `json:"evaluations"`
	Classes     map[string]int64  `json:"classes"`
	Excluded    map[string]int64  `json:"excluded"`
	Samples     []json.RawMessage `json:"samples"`
	Violations  []Violation       `json:"violations"`
	Knowns      []Known           `json:"knowns"`
	ProbesOK    []string          `json:"probes_ok"`
	Notes       []string          `json:"notes"`
	Completed   bool              `json:"completed"`
	Exhaustive  bool              `json:"exhaustive"`
	// NontrivialCount is the exact number of distinct non-trivial fingerprints
	// seen by this shard; Fingerprints holds at most fpCap of them so that the
	// driver can take a union across shards (conservative when capped).
	NontrivialCount int64    `json:"nontrivial_count"`
	Fingerprints    []uint64 `json:"fingerprints"`

	fps       map[uint64]struct{}
	sampleSeq int64
}

const fpCap = 400000
const sampleCap = 8

// NewStats creates the collector for a unit ("C15/lanes", ...).
func NewStats(property, unit string) *Stats {
	sh, _ := Shard()
	return &Stats{Property: property, Unit: unit, Shard: sh,
		Classes: map[string]int64{}, Excluded: map[string]int64{}, fps: map[uint64]struct{}{}}
}

// Eval counts executed cases.
func (s *Stats) Eval(n int) {
	s.mu.Lock()
	s.Evaluations += int64(n)
	s.mu.Unlock()
}

// Class bumps a histogram bucket.
func (s *Stats) Class(name string) { s.ClassN(name, 1) }

// ClassN bumps a histogram bucket by n.
func (s *Stats) ClassN(name string, n int) {
	s.mu.Lock()
	s.Classes[name] += int64(n)
	s.mu.Unlock()
}

// Exclude counts a generated case that was not judged (known-finding class or
// a class the property statement is silent about).
func (s *Stats) Exclude(class string) {
	s.mu.Lock()
	s.Excluded[class]++
	s.mu.Unlock()
}

// NonTrivial records the fingerprint of a case that is non-trivial by the
// unit's stated rule.
func (s *Stats) NonTrivial(fp string) {
	h := fnv.New64a()
	h.Write([]byte(fp))
	s.NonTrivialU(h.Sum64())
}

// NonTrivialU is NonTrivial for an already hashed fingerprint.
func (s *Stats) NonTrivialU(v uint64) {
	s.mu.Lock()
	if _, ok := s.fps[v]; !ok {
		s.NontrivialCount++
		if len(s.fps) < fpCap {
			s.fps[v] = struct{}{}
		}
	}
	s.mu.Unlock()
}

// Sample keeps a handful of literal cases (the first ones and then
// exponentially rarer ones, deterministic).
func (s *Stats) Sample(v interface{}) {
	s.mu.Lock()
	defer s.mu.Unlock()
	s.sampleSeq++
	n := s.sampleSeq
	keep := len(s.Samples) < 3 || (n&(n-1)) == 0
	if !keep {
		return
	}
	b, err := json.Marshal(v)
	if err != nil {
		b, _ = json.Marshal(fmt.Sprintf("%+v", v))
	}
	if len(b) > 1500 {
		b, _ = json.Marshal(string(b[:1500]) + "...")
	}
	if len(s.Samples) < sampleCap {
		s.Samples = append(s.Samples, b)
	} else {
		s.Samples[3+int(n)%(sampleCap-3)] = b
	}
}

// Note adds a free-text remark to the evidence.
func (s *Stats) Note(format string, a ...interface{}) {
	s.mu.Lock()
	s.Notes = append(s.Notes, fmt.Sprintf(format, a...))
	s.mu.Unlock()
}

// ReplayFile is the on-disk form of one failing case.
type ReplayFile struct {
	Property string          `json:"property"`
	Unit     string          `json:"unit"`
	Message  string          `json:"message"`
	Case     json.RawMessage `json:"case"`
}

// Violation records a failed case and writes its replay file into OutDir.
func (s *Stats) Violation(msg string, c interface{}) {
	cb, err := json.Marshal(c)
	if err != nil {
		cb, _ = json.Marshal(fmt.Sprintf("%+v", c))
	}
	rf := ReplayFile{Property: s.Property, Unit: s.Unit, Message: msg, Case: cb}
	b, _ := json.MarshalIndent(rf, "", " ")
	sum := sha256.Sum256(cb)
	name := fmt.Sprintf("%s-%s-%s.json", s.Property, strings.ReplaceAll(strings.ReplaceAll(s.Unit, "/", "_"), " ", "_"), hex.EncodeToString(sum[:5]))
	path := filepath.Join(OutDir(), name)
	_ = os.WriteFile(path, b, 0o644)
	s.mu.Lock()
	if len(s.Violations) < 20 {
		s.Violations = append(s.Violations, Violation{Message: msg, Replay: path})
	}
	s.mu.Unlock()
	s.Flush()
}

// KnownFinding reports that the deterministic probe of a listed finding still fails.
func (s *Stats) KnownFinding(key, msg string) {
	s.mu.Lock()
	s.Knowns = append(s.Knowns, Known{Key: key, Message: msg})
	s.mu.Unlock()
}

// ProbeOK reports that the probe of a finding no longer fails (it is fixed).
func (s *Stats) ProbeOK(key string) {
	s.mu.Lock()
	s.ProbesOK = append(s.ProbesOK, key)
	s.mu.Unlock()
}

// Done marks the unit as having run to its planned end.
func (s *Stats) Done() {
	s.mu.Lock()
	s.Completed = true
	s.mu.Unlock()
	s.Flush()
}

// Flush writes the statistics file (idempotent, called at the end and on every violation).
func (s *Stats) Flush() {
	s.mu.Lock()
	defer s.mu.Unlock()
	s.Fingerprints = s.Fingerprints[:0]
	for k := range s.fps {
		s.Fingerprints = append(s.Fingerprints, k)
	}
	sort.Slice(s.Fingerprints, func(i, j int) bool { return s.Fingerprints[i] < s.Fingerprints[j] })
	b, err := json.Marshal(s)
	if err != nil {
		panic(err)
	}
	name := fmt.Sprintf("stats-%s-%d.json", strings.ReplaceAll(strings.ReplaceAll(s.Unit, "/", "_"), " ", "_"), s.Shard)
	tmp := filepath.Join(OutDir(), name+".tmp")
	_ = os.WriteFile(tmp, b, 0o644)
	_ = os.Rename(tmp, filepath.Join(OutDir(), name))
}
