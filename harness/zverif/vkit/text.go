//go:build go1.18 && linux
// +build go1.18,linux

package vkit

import (
	"debug/elf"
	"fmt"
	"os"
	"sort"
	"strings"
	"syscall"
	"unsafe"
)

// TextImage observes the executable image of the running process: the live
// bytes of .text against a pristine copy taken before the first patch.
type TextImage struct {
	Im       *Image
	Slide    uint64
	Addr     uintptr // run-time address of .text
	Live     []byte  // the mapped text itself
	Pristine []byte
}

// Range is a half-open interval of run-time addresses.
type Range struct{ Lo, Hi uintptr }

func (r Range) String() string { return fmt.Sprintf("[%#x,%#x)", r.Lo, r.Hi) }

// LoadSlide returns run-time base minus link-time base of the executable (0 unless PIE).
func LoadSlide() uint64 {
	exe, _ := os.Readlink("/proc/self/exe")
	b, _ := os.ReadFile("/proc/self/maps")
	var first uint64
	found := false
	for _, l := range strings.Split(string(b), "\n") {
		if !strings.HasSuffix(l, exe) {
			continue
		}
		var lo, hi, off uint64
		var perm string
		if n, _ := fmt.Sscanf(l, "%x-%x %s %x", &lo, &hi, &perm, &off); n == 4 && off == 0 {
			first, found = lo, true
			break
		}
	}
	if !found {
		return 0
	}
	f, err := elf.Open("/proc/self/exe")
	if err != nil {
		return 0
	}
	defer f.Close()
	for _, p := range f.Progs {
		if p.Type == elf.PT_LOAD && p.Off == 0 {
			return first - p.Vaddr
		}
	}
	return 0
}

// SnapshotText takes the pristine copy. Call it before anything is patched.
func SnapshotText() *TextImage {
	im, err := LoadImage("/proc/self/exe")
	if err != nil {
		panic(err)
	}
	t := &TextImage{Im: im, Slide: LoadSlide()}
	t.Addr = uintptr(im.TextAddr + t.Slide)
	t.Live = unsafe.Slice((*byte)(unsafe.Pointer(t.Addr)), len(im.Text))
	t.Pristine = append([]byte(nil), t.Live...)
	return t
}

// Diff lists the maximal byte ranges where the live text differs from the pristine copy.
func (t *TextImage) Diff() []Range {
	var out []Range
	live, pr := t.Live, t.Pristine
	n := len(live)
	i := 0
	for i < n {
		// fast skip over equal 8-byte words
		for i+8 <= n && *(*uint64)(unsafe.Pointer(&live[i])) == *(*uint64)(unsafe.Pointer(&pr[i])) {
			i += 8
		}
		if i >= n {
			break
		}
		if live[i] == pr[i] {
			i++
			continue
		}
		j := i
		for j < n && live[j] != pr[j] {
			j++
		}
		out = append(out, Range{t.Addr + uintptr(i), t.Addr + uintptr(j)})
		i = j
	}
	return out
}

// Contains reports whether addr lies in the text image.
func (t *TextImage) Contains(addr uintptr) bool {
	return addr >= t.Addr && addr < t.Addr+uintptr(len(t.Live))
}

// FuncAt names the function containing a run-time address.
func (t *TextImage) FuncAt(addr uintptr) (Func, bool) {
	f, ok := t.Im.FuncAt(uint64(addr) - t.Slide)
	if ok {
		f.Entry += t.Slide
		f.End += t.Slide
	}
	return f, ok
}

// Describe renders diff ranges with function names.
func (t *TextImage) Describe(rs []Range) string {
	var parts []string
	for i, r := range rs {
		if i >= 6 {
			parts = append(parts, fmt.Sprintf("... %d more", len(rs)-i))
			break
		}
		name := "?"
		if f, ok := t.FuncAt(r.Lo); ok {
			name = fmt.Sprintf("%s+%d", f.Name, r.Lo-uintptr(f.Entry))
		}
		parts = append(parts, fmt.Sprintf("%v(%s)", r, name))
	}
	return strings.Join(parts, ", ")
}

// Outside returns the parts of the diff that are not covered by the allowed ranges.
func Outside(diff []Range, allowed []Range) []Range {
	sort.Slice(allowed, func(i, j int) bool { return allowed[i].Lo < allowed[j].Lo })
	var out []Range
	for _, d := range diff {
		lo := d.Lo
		for _, a := range allowed {
			if a.Hi <= lo || a.Lo >= d.Hi {
				continue
			}
			if a.Lo > lo {
				out = append(out, Range{lo, a.Lo})
			}
			if a.Hi > lo {
				lo = a.Hi
			}
			if lo >= d.Hi {
				break
			}
		}
		if lo < d.Hi {
			out = append(out, Range{lo, d.Hi})
		}
	}
	return out
}

// MapsEntry is one line of /proc/self/maps.
type MapsEntry struct {
	Lo, Hi uintptr
	Perm   string
	Path   string
}

// ReadMaps parses /proc/self/maps.
func ReadMaps() []MapsEntry {
	b, _ := os.ReadFile("/proc/self/maps")
	var out []MapsEntry
	for _, l := range strings.Split(string(b), "\n") {
		f := strings.Fields(l)
		if len(f) < 5 {
			continue
		}
		var e MapsEntry
		if n, _ := fmt.Sscanf(f[0], "%x-%x", &e.Lo, &e.Hi); n != 2 {
			continue
		}
		e.Perm = f[1]
		if len(f) >= 6 {
			e.Path = f[5]
		}
		out = append(out, e)
	}
	return out
}

// PermAt returns the protection string of the mapping containing addr ("" if unmapped).
func PermAt(maps []MapsEntry, addr uintptr) string {
	for _, e := range maps {
		if addr >= e.Lo && addr < e.Hi {
			return e.Perm
		}
	}
	return ""
}

// WritableImagePages lists mappings of the executable (or of extra ranges) that are writable and executable, or
// text pages that became writable.
func (t *TextImage) WritableTextPages() []MapsEntry {
	var bad []MapsEntry
	lo, hi := t.Addr, t.Addr+uintptr(len(t.Live))
	for _, e := range ReadMaps() {
		if e.Hi <= lo || e.Lo >= hi {
			continue
		}
		if strings.Contains(e.Perm[:3], "w") || !strings.Contains(e.Perm[:3], "x") {
			bad = append(bad, e)
		}
	}
	return bad
}

// MmapAt maps an anonymous private region, preferably at hint (not MAP_FIXED).
func MmapAt(hint uintptr, size int, prot int) (uintptr, error) {
	const mapFixedNoReplace = 0x100000
	if hint != 0 {
		// insist on the hinted address first (fails instead of replacing an existing mapping)
		r, _, e := syscall.Syscall6(syscall.SYS_MMAP, hint, uintptr(size), uintptr(prot), uintptr(syscall.MAP_PRIVATE|syscall.MAP_ANON|mapFixedNoReplace), ^uintptr(0), 0)
		if e == 0 {
			return r, nil
		}
	}
	r, _, e := syscall.Syscall6(syscall.SYS_MMAP, hint, uintptr(size), uintptr(prot), uintptr(syscall.MAP_PRIVATE|syscall.MAP_ANON), ^uintptr(0), 0)
	if e != 0 {
		return 0, e
	}
	return r, nil
}

// Mprotect changes the protection of [addr, addr+size).
func Mprotect(addr uintptr, size int, prot int) error {
	_, _, e := syscall.Syscall(syscall.SYS_MPROTECT, addr, uintptr(size), uintptr(prot))
	if e != 0 {
		return e
	}
	return nil
}

// Bytes returns the memory at [addr, addr+n) as a slice.
func Bytes(addr uintptr, n int) []byte {
	return unsafe.Slice((*byte)(unsafe.Pointer(addr)), n)
}
