//go:build go1.18
// +build go1.18

package vkit

import (
	"encoding/json"
	"flag"
	"fmt"
	"os"
	"path/filepath"
	"runtime/debug"
	"strings"
	"testing"

	"pgregory.net/rapid"
)

// Prop is one generated check: Gen draws a case (everything random comes from
// rapid), Run decides it against the oracle. Run is a pure function of the
// case, which is what makes the JSON form of the case a replay file.
type Prop struct {
	ID   string // property id, "C15"
	Unit string // unit name, unique inside the property, "relative"
	New  func() interface{}
	Gen  func(t *rapid.T) interface{}
	Run  func(c interface{}, s *Stats) error
	// Journal: write every case to disk before it runs (for checks whose
	// failure mode is the death of the process).
	Journal bool
}

// SafeRun runs the case and turns a panic into an error.
func (p *Prop) SafeRun(c interface{}, s *Stats) (err error) {
	defer func() {
		if r := recover(); r != nil {
			err = fmt.Errorf("panic: %v\n%s", r, trimStack(debug.Stack()))
		}
	}()
	return p.Run(c, s)
}

func trimStack(b []byte) string {
	lines := strings.Split(string(b), "\n")
	if len(lines) > 24 {
		lines = lines[:24]
	}
	return strings.Join(lines, "\n")
}

// ReplayRequested returns the replay file to run, if any, when it belongs to this unit.
func (p *Prop) replayCase() (interface{}, bool) {
	path := os.Getenv("VERIF_REPLAY")
	if path == "" {
		return nil, false
	}
	b, err := os.ReadFile(path)
	if err != nil {
		panic(err)
	}
	var rf ReplayFile
	if err := json.Unmarshal(b, &rf); err != nil {
		panic(err)
	}
	if rf.Property != p.ID || rf.Unit != p.Unit {
		return nil, true // replay of another unit: this one does nothing
	}
	c := p.New()
	if err := json.Unmarshal(rf.Case, c); err != nil {
		panic(err)
	}
	return c, true
}

// Replaying reports whether a replay was requested (units without a Prop use it to stay idle).
func Replaying() bool { return os.Getenv("VERIF_REPLAY") != "" }

// Main runs the unit: a replay if one is requested, else `checks` generated cases.
func (p *Prop) Main(t *testing.T, checks int) *Stats {
	s := NewStats(p.ID, p.Unit)
	if c, replay := p.replayCase(); replay {
		if c != nil {
			s.Eval(1)
			if err := p.SafeRun(c, s); err != nil {
				s.Violation(err.Error(), c)
				t.Errorf("replay fails: %v", err)
			} else {
				t.Logf("replay passes")
			}
			s.Done()
		}
		return s
	}
	p.Generate(t, s, checks)
	return s
}

// Generate runs `checks` generated cases into an existing collector.
func (p *Prop) Generate(t *testing.T, s *Stats, checks int) {
	sh, _ := Shard()
	_ = flag.Set("rapid.checks", fmt.Sprint(checks))
	_ = flag.Set("rapid.seed", fmt.Sprint(Seed()*7919+uint64(len(p.Unit))*104729+hashStr(p.Unit)%100003))
	_ = flag.Set("rapid.nofailfile", "true")
	_ = flag.Set("rapid.shrinktime", "20s")
	var lastFail interface{}
	var lastErr error
	journal := filepath.Join(OutDir(), fmt.Sprintf("journal-%s-%s-%d.json", p.ID, strings.ReplaceAll(p.Unit, "/", "_"), sh))
	defer func() {
		if lastErr != nil {
			s.Violation(lastErr.Error(), lastFail)
		} else if !t.Failed() {
			s.Completed = true
		}
		s.Flush()
	}()
	rapid.Check(t, func(rt *rapid.T) {
		c := p.Gen(rt)
		if p.Journal {
			cb, _ := json.Marshal(c)
			rf, _ := json.Marshal(ReplayFile{Property: p.ID, Unit: p.Unit, Message: "journal: last case started before the process died", Case: cb})
			_ = os.WriteFile(journal, rf, 0o644)
		}
		s.Eval(1)
		if err := p.SafeRun(c, s); err != nil {
			lastFail, lastErr = c, err
			rt.Fatalf("%v", err)
		}
	})
	if p.Journal {
		_ = os.Remove(journal)
	}
}

func hashStr(s string) uint64 {
	var h uint64 = 1469598103934665603
	for i := 0; i < len(s); i++ {
		h ^= uint64(s[i])
		h *= 1099511628211
	}
	return h
}

// Op is the generic operation of history-shaped cases: a kind, integer
// operands (interpreted modulo whatever is enabled in the model state, so that
// every drawn history is executable) and string operands.
type Op struct {
	K string   `json:"k"`
	I []int64  `json:"i,omitempty"`
	S []string `json:"s,omitempty"`
}

// OpGen draws an Op whose kind follows the weights and that carries n integer operands.
func OpGen(kinds []string, weights []int, n int) *rapid.Generator[Op] {
	var bag []string
	for i, k := range kinds {
		w := 1
		if i < len(weights) {
			w = weights[i]
		}
		for j := 0; j < w; j++ {
			bag = append(bag, k)
		}
	}
	return rapid.Custom(func(t *rapid.T) Op {
		o := Op{K: rapid.SampledFrom(bag).Draw(t, "k")}
		for i := 0; i < n; i++ {
			o.I = append(o.I, int64(ValueCode().Draw(t, "i")))
		}
		return o
	})
}

// ValueCode draws a "value code": small codes select boundary values, large
// ones pseudo-random values (see values.go). Shrinks towards 0 = zero value.
func ValueCode() *rapid.Generator[uint32] {
	return rapid.OneOf(
		rapid.Uint32Range(0, 40),
		rapid.Uint32Range(0, 40),
		rapid.Uint32(),
	)
}

// Pick maps an arbitrary integer operand onto [0,n).
func Pick(v int64, n int) int {
	if n <= 0 {
		return 0
	}
	if v < 0 {
		v = -v
	}
	return int(v % int64(n))
}
