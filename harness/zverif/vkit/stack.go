//go:build go1.18
// +build go1.18

package vkit

import (
	"reflect"
	"runtime"
	"runtime/debug"
	"sync"
	"time"
)

//go:noinline
func recurse(d int, f func()) int {
	var pad [256]byte
	pad[d%256] = byte(d)
	if d <= 0 {
		f()
		return int(pad[0])
	}
	return recurse(d-1, f) + int(pad[d%256])
}

// AtDepth runs f on a fresh goroutine after recursing d frames (~300 bytes
// each), so that the goroutine's stack has been grown (moved) d/… times and f
// runs with whatever headroom is left.
func AtDepth(d int, f func()) {
	var wg sync.WaitGroup
	wg.Add(1)
	var pv interface{}
	go func() {
		defer wg.Done()
		defer func() { pv = recover() }()
		recurse(d, f)
	}()
	wg.Wait()
	if pv != nil {
		panic(pv)
	}
}

var churnKeep [][]byte
var churnFuncs []func() int

// Churn allocates and drops objects in the size classes of closures and small
// structs so that memory freed by a collection is reused quickly.
func Churn(n int) {
	for i := 0; i < n; i++ {
		for _, sz := range []int{8, 16, 24, 32, 48, 64, 80, 96, 112, 128} {
			b := make([]byte, sz)
			for j := range b {
				b[j] = 0xAB
			}
			if i%64 == 0 {
				churnKeep = append(churnKeep, b)
			}
		}
		x := i
		f := func() int { return x * 3 }
		if i%64 == 0 {
			churnFuncs = append(churnFuncs, f)
		}
	}
	if len(churnKeep) > 4096 {
		churnKeep = nil
		churnFuncs = nil
	}
}

// Poisoned is the text of the panic raised when code jumps through a func-value-shaped object that the collector
// had freed and ChurnSmall re-allocated.
const Poisoned = "POISON: a callback was garbage collected while machine code still referred to it (its memory was reused)"

//go:noinline
func poison() { panic(Poisoned) }

var poisonPC = reflect.ValueOf(poison).Pointer()

// func-value-shaped objects with pointer fields: they live in the same (pointer-scanned) span classes as closures and
// reflect.MakeFunc implementations, whose first word is a code address
type p16 struct {
	F uintptr
	A *int
}
type p24 struct {
	F    uintptr
	A, B *int
}
type p32 struct {
	F       uintptr
	A, B, C *int
}
type p48 struct {
	F uintptr
	A [5]*int
}
type p64 struct {
	F uintptr
	A [7]*int
}
type p80 struct {
	F uintptr
	A [9]*int
}

var poisonKeep []interface{}

// ChurnSmall floods the size classes closures and reflect.MakeFunc values live in (16..80 bytes, pointer-scanned and
// pointer-free), so that slots freed by the last collection are reused deterministically. The pointer-scanned
// objects look like func values whose code pointer is `poison`: machine code that still jumps through a collected
// callback then panics with Poisoned instead of running random memory.
func ChurnSmall(n int) {
	for i := 0; i < n; i++ {
		a := &p16{F: poisonPC}
		b := &p24{F: poisonPC}
		c := &p32{F: poisonPC}
		d := &p48{F: poisonPC}
		e := &p64{F: poisonPC}
		f := &p80{F: poisonPC}
		if i%257 == 0 {
			poisonKeep = append(poisonKeep, a, b, c, d, e, f)
		}
	}
	if len(poisonKeep) > 20000 {
		poisonKeep = nil
	}
	var keep [][]byte
	for i := 0; i < n; i++ {
		for _, sz := range []int{16, 32, 48, 64} {
			b := make([]byte, sz)
			for j := range b {
				b[j] = 0xAB
			}
			if i%1024 == 0 {
				keep = append(keep, b)
			}
		}
	}
	runtime.KeepAlive(keep)
}

// GC runs two collections (finalizers / sweeping of the first complete in the second) and gives the finalizer goroutine
// the time to run what the collections queued: a sentinel object's finalizer is waited for (bounded), then the
// goroutine yields once more for finalizers queued behind it.
func GC() {
	done := make(chan struct{})
	sentinel := new([24]byte)
	runtime.SetFinalizer(sentinel, func(*[24]byte) { close(done) })
	sentinel = nil
	runtime.GC()
	runtime.GC()
	select {
	case <-done:
	case <-time.After(50 * time.Millisecond):
	}
	runtime.Gosched()
	time.Sleep(50 * time.Microsecond)
}

//go:noinline
func touchStack(n int) byte {
	var pad [65536]byte
	pad[n&65535] = 1
	return pad[(n+7)&65535]
}

// WithHeadroom runs f with at least ~32KiB of free goroutine stack and no collection (hence no stack
// shrinking) in between: calls that reach an origin placeholder must not hit the stack-growth path of the
// relocated prologue (known finding C03/origin-morestack-reentry).
func WithHeadroom(f func()) {
	old := debug.SetGCPercent(-1)
	defer debug.SetGCPercent(old)
	touchStack(3)
	f()
}

//go:noinline
func recurseSmall(n int, f func()) int {
	if n <= 0 {
		f()
		return 0
	}
	return recurseSmall(n-1, f) + 1
}

// AtDepthFine is AtDepth followed by `fine` frames of a function with a small (~48 byte) frame: it moves the
// remaining stack headroom in small steps.
func AtDepthFine(d, fine int, f func()) {
	AtDepth(d, func() { recurseSmall(fine, f) })
}
