//go:build go1.18
// +build go1.18

package vkit

import (
	"runtime"
	"runtime/debug"
	"sync"
)

//go:noinline
func recurse(d int, f func()) int {
	var pad [256]byte
	pad[d%256] = byte(d)
	if d <= 0 {
		f()
		return int(pad[0])
	}
	return recurse(d-1, f) + int(pad[d%256])
}

// AtDepth runs f on a fresh goroutine after recursing d frames (~300 bytes
// each), so that the goroutine's stack has been grown (moved) d/… times and f
// runs with whatever headroom is left.
func AtDepth(d int, f func()) {
	var wg sync.WaitGroup
	wg.Add(1)
	var pv interface{}
	go func() {
		defer wg.Done()
		defer func() { pv = recover() }()
		recurse(d, f)
	}()
	wg.Wait()
	if pv != nil {
		panic(pv)
	}
}

var churnKeep [][]byte
var churnFuncs []func() int

// Churn allocates and drops objects in the size classes of closures and small
// structs so that memory freed by a collection is reused quickly.
func Churn(n int) {
	for i := 0; i < n; i++ {
		for _, sz := range []int{8, 16, 24, 32, 48, 64, 80, 96, 112, 128} {
			b := make([]byte, sz)
			for j := range b {
				b[j] = 0xAB
			}
			if i%64 == 0 {
				churnKeep = append(churnKeep, b)
			}
		}
		x := i
		f := func() int { return x * 3 }
		if i%64 == 0 {
			churnFuncs = append(churnFuncs, f)
		}
	}
	if len(churnKeep) > 4096 {
		churnKeep = nil
		churnFuncs = nil
	}
}

// ChurnSmall floods the size classes closures and reflect.MakeFunc values live in (16..64 bytes), so that
// slots freed by the last collection are reused and overwritten deterministically.
func ChurnSmall(n int) {
	var keep [][]byte
	for i := 0; i < n; i++ {
		for _, sz := range []int{16, 32, 48, 64} {
			b := make([]byte, sz)
			for j := range b {
				b[j] = 0xAB
			}
			if i%1024 == 0 {
				keep = append(keep, b)
			}
		}
	}
	runtime.KeepAlive(keep)
}

// GC runs two collections (finalizers / sweeping of the first complete in the second).
func GC() {
	runtime.GC()
	runtime.GC()
}

//go:noinline
func touchStack(n int) byte {
	var pad [65536]byte
	pad[n&65535] = 1
	return pad[(n+7)&65535]
}

// WithHeadroom runs f with at least ~32KiB of free goroutine stack and no collection (hence no stack
// shrinking) in between: calls that reach an origin placeholder must not hit the stack-growth path of the
// relocated prologue (known finding C03/origin-morestack-reentry).
func WithHeadroom(f func()) {
	old := debug.SetGCPercent(-1)
	defer debug.SetGCPercent(old)
	touchStack(3)
	f()
}

//go:noinline
func recurseSmall(n int, f func()) int {
	if n <= 0 {
		f()
		return 0
	}
	return recurseSmall(n-1, f) + 1
}

// AtDepthFine is AtDepth followed by `fine` frames of a function with a small (~48 byte) frame: it moves the
// remaining stack headroom in small steps.
func AtDepthFine(d, fine int, f func()) {
	AtDepth(d, func() { recurseSmall(fine, f) })
}
