//go:build go1.18
// +build go1.18

package vkit

import "encoding/binary"

// SPRange says that for program counters in [Lo, Hi) (offsets from the function's entry) the runtime's frame table
// (pcsp) gives the frame size Delta: the distance from SP to the slot below the return address.
type SPRange struct {
	Lo, Hi uint32
	Delta  int32
}

// PCSP decodes the runtime's pc -> frame-size table of the function whose link-time entry address is given (go1.18+
// pclntab layout, little endian, pc quantum 1). This is the table the garbage collector, the stack copier and the
// traceback use to find the return address of a frame that was interrupted at an arbitrary instruction.
func (im *Image) PCSP(entry uint64) ([]SPRange, bool) {
	pd := im.pcln
	if len(pd) < 72 || pd[7] != 8 {
		return nil, false
	}
	magic := binary.LittleEndian.Uint32(pd)
	if magic != 0xfffffff0 && magic != 0xfffffff1 {
		return nil, false
	}
	u64 := func(off int) uint64 { return binary.LittleEndian.Uint64(pd[off:]) }
	nfunc := int(u64(8))
	pctab := pd[u64(56):]
	pcln := pd[u64(64):]
	if entry < im.pclnText || len(pcln) < (nfunc+1)*8 {
		return nil, false
	}
	want := uint32(entry - im.pclnText)
	// functab: nfunc+1 pairs (entry offset, offset of the _func record)
	lo, hi := 0, nfunc
	for lo < hi {
		m := (lo + hi) / 2
		if binary.LittleEndian.Uint32(pcln[m*8:]) < want {
			lo = m + 1
		} else {
			hi = m
		}
	}
	if lo >= nfunc || binary.LittleEndian.Uint32(pcln[lo*8:]) != want {
		return nil, false
	}
	fo := binary.LittleEndian.Uint32(pcln[lo*8+4:])
	if int(fo)+20 > len(pcln) {
		return nil, false
	}
	pcsp := binary.LittleEndian.Uint32(pcln[fo+16:])
	if pcsp == 0 || int(pcsp) >= len(pctab) {
		return nil, false
	}
	p := pctab[pcsp:]
	readvarint := func() (uint32, bool) {
		var v, shift uint32
		for {
			if len(p) == 0 {
				return 0, false
			}
			b := p[0]
			p = p[1:]
			v |= uint32(b&0x7f) << (shift & 31)
			if b&0x80 == 0 {
				return v, true
			}
			shift += 7
		}
	}
	var out []SPRange
	val, pc := int32(-1), uint32(0)
	for first := true; ; first = false {
		uv, ok := readvarint()
		if !ok || (uv == 0 && !first) {
			break
		}
		if uv&1 != 0 {
			uv = ^(uv >> 1)
		} else {
			uv >>= 1
		}
		val += int32(uv)
		d, ok := readvarint()
		if !ok {
			break
		}
		out = append(out, SPRange{Lo: pc, Hi: pc + d, Delta: val})
		pc += d
	}
	return out, len(out) > 0
}

// SPDeltaAt looks an offset up in a decoded table.
func SPDeltaAt(tab []SPRange, off uint32) (int32, bool) {
	for _, r := range tab {
		if off >= r.Lo && off < r.Hi {
			return r.Delta, true
		}
	}
	return 0, false
}
