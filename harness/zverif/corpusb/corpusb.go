//go:build go1.18
// +build go1.18

// Package corpusb declares struct types with the SAME NAMES as types of the generated corpus (T00, T01, t08) in
// another package, with the same method names: property C06 says a method mock touches "no method of another
// type", which includes a same-named type of another package used in the same builder.
package corpusb

import (
	"reflect"

	"github.com/tencent/goom/zverif/corpus"
	"github.com/tencent/goom/zverif/vkit"
)

// PkgPath is the import path of this package.
const PkgPath = "github.com/tencent/goom/zverif/corpusb"

// Ran counts executions of original method bodies.
var Ran [64]int64

// T00 has the name of corpus.T00 but another layout.
type T00 struct {
	K int
	S string
}

// T01 has the name of corpus.T01.
type T01 struct {
	V float64
	P *int
}

type t08 struct {
	N int
}

//go:noinline
func (r *T00) Get(a0 int) int { Ran[0]++; return r.K*1000 + a0 + 1 }

//go:noinline
func (r T00) GetX() string { Ran[1]++; return r.S + "/b" }

//go:noinline
func (r *T00) get() int { Ran[2]++; return r.K - 1 }

//go:noinline
func (r *T01) Get() int { Ran[3]++; return int(r.V) + 7 }

//go:noinline
func (r T01) GetX(a0 string) string { Ran[4]++; return a0 + "/b1" }

//go:noinline
func (r *t08) Get(a0 int) int { Ran[5]++; return r.N + a0 }

//go:noinline
func (r *t08) get() int { Ran[6]++; return r.N * 3 }

var instT00 = [5]*T00{{1, "a"}, {2, "b"}, {3, "c"}, {4, "d"}, {5, "e"}}
var instT01 = [5]*T01{{1.5, nil}, {2.5, nil}, {3.5, nil}, {4.5, nil}, {5.5, nil}}
var instt08 = [5]*t08{{1}, {2}, {3}, {4}, {5}}

func as[T any](v reflect.Value) T {
	var z T
	if v.IsValid() {
		reflect.ValueOf(&z).Elem().Set(v)
	}
	return z
}

func box[T any](v T) reflect.Value {
	p := new(T)
	*p = v
	return reflect.ValueOf(p).Elem()
}

// Types lists the types of this package in the corpus' own descriptor format.
var Types []*corpus.TypeInfo

func init() {
	mk := func(t *corpus.TypeInfo, ms ...*corpus.Method) {
		for _, m := range ms {
			m.Type = t
			m.FuncType = reflect.TypeOf(m.As)
		}
		t.Methods = ms
		Types = append(Types, t)
	}
	mk(&corpus.TypeInfo{Name: "T00", Exported: true, PtrArg: &T00{}, ValArg: T00{}, Type: reflect.TypeOf(T00{}),
		Instance: func(i int) interface{} { return instT00[i%5] }},
		&corpus.Method{Tag: 9000, Name: "Get", Ptr: true, Exported: true, Ran: &Ran[0],
			Call: func(i int, a []reflect.Value) []reflect.Value { return []reflect.Value{box(instT00[i%5].Get(as[int](a[0])))} },
			MkRepl: func(rec *corpus.Rec) interface{} {
				return func(r *T00, a0 int) int { rec.Calls++; rec.Args = []reflect.Value{box(r), box(a0)}; return as[int](rec.Res[0]) }
			},
			As: func(r *T00, a0 int) (r0 int) { vkit.Sink(1); return }},
		&corpus.Method{Tag: 9001, Name: "GetX", Ptr: false, Exported: true, Ran: &Ran[1],
			Call: func(i int, a []reflect.Value) []reflect.Value { return []reflect.Value{box((*instT00[i%5]).GetX())} },
			MkRepl: func(rec *corpus.Rec) interface{} {
				return func(r T00) string { rec.Calls++; rec.Args = []reflect.Value{box(r)}; return as[string](rec.Res[0]) }
			},
			As: func(r T00) (r0 string) { vkit.Sink(2); return }},
		&corpus.Method{Tag: 9002, Name: "get", Ptr: true, Exported: false, Ran: &Ran[2],
			Call: func(i int, a []reflect.Value) []reflect.Value { return []reflect.Value{box(instT00[i%5].get())} },
			MkRepl: func(rec *corpus.Rec) interface{} {
				return func(r *T00) int { rec.Calls++; rec.Args = []reflect.Value{box(r)}; return as[int](rec.Res[0]) }
			},
			As: func(r *T00) (r0 int) { vkit.Sink(3); return }})
	mk(&corpus.TypeInfo{Name: "T01", Exported: true, PtrArg: &T01{}, ValArg: T01{}, Type: reflect.TypeOf(T01{}),
		Instance: func(i int) interface{} { return instT01[i%5] }},
		&corpus.Method{Tag: 9010, Name: "Get", Ptr: true, Exported: true, Ran: &Ran[3],
			Call: func(i int, a []reflect.Value) []reflect.Value { return []reflect.Value{box(instT01[i%5].Get())} },
			MkRepl: func(rec *corpus.Rec) interface{} {
				return func(r *T01) int { rec.Calls++; rec.Args = []reflect.Value{box(r)}; return as[int](rec.Res[0]) }
			},
			As: func(r *T01) (r0 int) { vkit.Sink(4); return }},
		&corpus.Method{Tag: 9011, Name: "GetX", Ptr: false, Exported: true, Ran: &Ran[4],
			Call: func(i int, a []reflect.Value) []reflect.Value { return []reflect.Value{box((*instT01[i%5]).GetX(as[string](a[0])))} },
			MkRepl: func(rec *corpus.Rec) interface{} {
				return func(r T01, a0 string) string { rec.Calls++; rec.Args = []reflect.Value{box(r), box(a0)}; return as[string](rec.Res[0]) }
			},
			As: func(r T01, a0 string) (r0 string) { vkit.Sink(5); return }})
	mk(&corpus.TypeInfo{Name: "t08", Exported: false, PtrArg: &t08{}, ValArg: t08{}, Type: reflect.TypeOf(t08{}),
		Instance: func(i int) interface{} { return instt08[i%5] }},
		&corpus.Method{Tag: 9020, Name: "Get", Ptr: true, Exported: true, Ran: &Ran[5],
			Call: func(i int, a []reflect.Value) []reflect.Value { return []reflect.Value{box(instt08[i%5].Get(as[int](a[0])))} },
			MkRepl: func(rec *corpus.Rec) interface{} {
				return func(r *t08, a0 int) int { rec.Calls++; rec.Args = []reflect.Value{box(r), box(a0)}; return as[int](rec.Res[0]) }
			},
			As: func(r *t08, a0 int) (r0 int) { vkit.Sink(6); return }},
		&corpus.Method{Tag: 9021, Name: "get", Ptr: true, Exported: false, Ran: &Ran[6],
			Call: func(i int, a []reflect.Value) []reflect.Value { return []reflect.Value{box(instt08[i%5].get())} },
			MkRepl: func(rec *corpus.Rec) interface{} {
				return func(r *t08) int { rec.Calls++; rec.Args = []reflect.Value{box(r)}; return as[int](rec.Res[0]) }
			},
			As: func(r *t08) (r0 int) { vkit.Sink(7); return }})
}

// ---- targets addressed from other packages through Builder.Pkg(PkgPath) (property C12) ----

//go:noinline
func pf(x int) int { return x*10 + 8 }

// CallPF calls the unexported function pf.
func CallPF(x int) int { return pf(x) }

// AsPF is the signature template of pf.
var AsPF = func(x int) (r int) { vkit.Sink(21); return }

//go:noinline
func (r *t08) mul(a0 int) int { return a0*10 + r.N }

// CallT08Mul calls (*t08).mul on an instance with N == 9.
func CallT08Mul(x int) int { return (&t08{N: 9}).mul(x) }

// AsT08Mul is the signature template of (*t08).mul (receiver first).
var AsT08Mul interface{} = func(r *t08, a0 int) (r0 int) { vkit.Sink(22); return }

// MkT08MulCb returns a callback for (*t08).mul that answers c.
func MkT08MulCb(c int) interface{} { return func(r *t08, a0 int) int { return c } }
