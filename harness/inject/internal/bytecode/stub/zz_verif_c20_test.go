//go:build go1.18 && amd64 && linux
// +build go1.18,amd64,linux

package stub

import (
	"bytes"
	"fmt"
	"os"
	"os/exec"
	"runtime"
	"runtime/debug"
	"sort"
	"strings"
	"sync"
	"sync/atomic"
	"syscall"
	"testing"
	"unsafe"

	"github.com/tencent/goom/zverif/vkit"
	"pgregory.net/rapid"
)

// ---- property C20: executable stub space ----

type c20Region struct {
	Addr uintptr
	Len  int
	Req  int
	G    int
}

func c20Disjoint(rs []c20Region) error {
	s := append([]c20Region(nil), rs...)
	sort.Slice(s, func(i, j int) bool { return s[i].Addr < s[j].Addr })
	// zero-length regions own no byte; they cannot overlap anything
	var prev *c20Region
	for i := range s {
		if s[i].Len == 0 {
			continue
		}
		if prev != nil && prev.Addr+uintptr(prev.Len) > s[i].Addr {
			return fmt.Errorf("regions overlap: [%#x,+%d) handed to requester %d and [%#x,+%d) handed to requester %d",
				prev.Addr, prev.Len, prev.G, s[i].Addr, s[i].Len, s[i].G)
		}
		prev = &s[i]
	}
	return nil
}

// c20Exec writes `MOV EAX, imm32; RET` through the writer and calls it.
func c20Exec(sp *Space, imm uint32) (err error) {
	code := []byte{0xB8, byte(imm), byte(imm >> 8), byte(imm >> 16), byte(imm >> 24), 0xC3}
	if len(*sp.Space) < len(code) {
		return nil
	}
	if e := Write(sp, code); e != nil {
		return fmt.Errorf("Write failed: %v", e)
	}
	got := bytes.Equal((*sp.Space)[:len(code)], code)
	if !got {
		return fmt.Errorf("bytes written through the writer do not read back at %#x", sp.Addr)
	}
	entry := sp.Addr
	fv := &entry
	f := *(*func() uint32)(unsafe.Pointer(&fv))
	if r := f(); r != imm {
		return fmt.Errorf("executing the region at %#x returned %#x, want %#x", sp.Addr, r, imm)
	}
	return nil
}

type c20SeqCase struct {
	Sizes []int `json:"sizes"`
}

// sequential requests against the fallback allocator, bump pointer reset per case
func c20RunSeq(ci interface{}, s *vkit.Stats) error {
	c := ci.(*c20SeqCase)
	saved := atomic.LoadUintptr(&placeHolderIns.off)
	defer atomic.StoreUintptr(&placeHolderIns.off, saved)
	atomic.StoreUintptr(&placeHolderIns.off, placeHolderIns.min)
	lo, hi := placeHolderIns.min, placeHolderIns.max
	var rs []c20Region
	exhausted := false
	total := 0
	for i, n := range c.Sizes {
		addr, space, err := acquireFromHolder(n)
		if err != nil {
			exhausted = true
			continue
		}
		if space == nil {
			return fmt.Errorf("request %d (%d bytes): nil space without error", i, n)
		}
		if len(*space) < n {
			return fmt.Errorf("request %d: asked %d bytes, got %d", i, n, len(*space))
		}
		if n > 0 && (addr < lo || addr+uintptr(len(*space)) > hi) {
			return fmt.Errorf("request %d: region [%#x,+%d) outside the reserve [%#x,%#x)", i, addr, len(*space), lo, hi)
		}
		if n > 0 && uintptr(unsafe.Pointer(&(*space)[0])) != addr {
			return fmt.Errorf("request %d: slice does not start at the returned address", i)
		}
		rs = append(rs, c20Region{Addr: addr, Len: len(*space), Req: n, G: i})
		total += n
		if n >= 6 && i%7 == 0 {
			sp := &Space{Addr: addr, Space: space, typ: TypeHolder}
			if err := c20Exec(sp, uint32(0xC0DE0000+i)); err != nil {
				return err
			}
			s.Class("executed")
		}
	}
	if err := c20Disjoint(rs); err != nil {
		return err
	}
	if total > int(hi-lo) {
		return fmt.Errorf("handed out %d bytes from a reserve of %d", total, hi-lo)
	}
	if exhausted {
		s.Class("reached-exhaustion")
		s.NonTrivial(fmt.Sprint("seq-exh", c.Sizes))
	} else if len(rs) >= 2 {
		s.NonTrivial(fmt.Sprint("seq", c.Sizes))
	}
	s.Sample(c)
	return nil
}

type c20ConcCase struct {
	G     int   `json:"goroutines"`
	Sizes []int `json:"sizes"` // request sizes, cycled by every requester
	Start int   `json:"start"` // bytes already used when the round starts (distance from exhaustion matters)
}

// concurrent requesters behind a spin barrier, until exhaustion
func c20RunConc(ci interface{}, s *vkit.Stats) error {
	c := ci.(*c20ConcCase)
	saved := atomic.LoadUintptr(&placeHolderIns.off)
	defer atomic.StoreUintptr(&placeHolderIns.off, saved)
	lo, hi := placeHolderIns.min, placeHolderIns.max
	start := lo + uintptr(c.Start)%(hi-lo)
	atomic.StoreUintptr(&placeHolderIns.off, start)
	var ready, goFlag int32
	var wg sync.WaitGroup
	out := make([][]c20Region, c.G)
	errs := make([]error, c.G)
	per := 4000
	for g := 0; g < c.G; g++ {
		wg.Add(1)
		go func(g int) {
			defer wg.Done()
			atomic.AddInt32(&ready, 1)
			for atomic.LoadInt32(&goFlag) == 0 {
			}
			fails := 0
			for i := 0; i < per && fails < 3; i++ {
				n := c.Sizes[(i+g)%len(c.Sizes)]
				addr, space, err := acquireFromHolder(n)
				if err != nil {
					fails++
					continue
				}
				if space == nil || len(*space) < n {
					errs[g] = fmt.Errorf("asked %d bytes, got a shorter region", n)
					return
				}
				if addr < lo || addr+uintptr(len(*space)) > hi {
					errs[g] = fmt.Errorf("region [%#x,+%d) outside the reserve [%#x,%#x)", addr, len(*space), lo, hi)
					return
				}
				out[g] = append(out[g], c20Region{Addr: addr, Len: len(*space), Req: n, G: g})
			}
		}(g)
	}
	for atomic.LoadInt32(&ready) != int32(c.G) {
		runtime.Gosched()
	}
	atomic.StoreInt32(&goFlag, 1)
	wg.Wait()
	var all []c20Region
	active := 0
	for g := range out {
		if errs[g] != nil {
			return errs[g]
		}
		if len(out[g]) > 0 {
			active++
		}
		all = append(all, out[g]...)
	}
	if err := c20Disjoint(all); err != nil {
		return err
	}
	if active >= 2 {
		s.Class("rounds-with>=2-successful-requesters")
		s.NonTrivial(fmt.Sprint("conc", c.G, c.Sizes, c.Start))
	}
	s.ClassN("regions", len(all))
	s.Sample(c)
	return nil
}

type c20AcqCase struct {
	Sizes []int64 `json:"sizes"`
}

var c20Global []c20Region // everything Acquire ever returned in this process (never freed)

func c20MapsPerm(addr uintptr) string {
	b, _ := os.ReadFile("/proc/self/maps")
	for _, l := range strings.Split(string(b), "\n") {
		var lo, hi uintptr
		var perm string
		if n, _ := fmt.Sscanf(l, "%x-%x %s", &lo, &hi, &perm); n == 3 && addr >= lo && addr < hi {
			return perm
		}
	}
	return ""
}

// the public entry point: mmap path for ordinary sizes, fallback dispatch for
// sizes the kernel rejects (0 and > 2^47)
func c20RunAcquire(ci interface{}, s *vkit.Stats) error {
	c := ci.(*c20AcqCase)
	lo, hi := placeHolderIns.min, placeHolderIns.max
	var held []*Space
	for i, n64 := range c.Sizes {
		n := int(n64)
		sp, err := Acquire(n)
		if err != nil {
			if n > 0 && n <= 1<<20 {
				return fmt.Errorf("Acquire(%d) failed: %v", n, err)
			}
			s.Class("rejected-by-both-paths")
			continue
		}
		if sp == nil || sp.Space == nil {
			return fmt.Errorf("Acquire(%d): nil space without error", n)
		}
		if len(*sp.Space) < n {
			return fmt.Errorf("Acquire(%d) returned %d bytes", n, len(*sp.Space))
		}
		r := c20Region{Addr: sp.Addr, Len: len(*sp.Space), Req: n, G: len(c20Global)}
		switch sp.typ {
		case TypeMMap:
			s.Class("mmap")
			if n > 0 {
				if perm := c20MapsPerm(sp.Addr); !strings.HasPrefix(perm, "rwx") {
					return fmt.Errorf("Acquire(%d): mmap region at %#x has protection %q, want rwx", n, sp.Addr, perm)
				}
			}
		case TypeHolder:
			s.Class("fallback")
			if r.Len > 0 && (r.Addr < lo || r.Addr+uintptr(r.Len) > hi) {
				return fmt.Errorf("Acquire(%d): fallback region [%#x,+%d) outside the reserve", n, r.Addr, r.Len)
			}
		default:
			return fmt.Errorf("Acquire(%d): unknown space type %d", n, sp.typ)
		}
		c20Global = append(c20Global, r)
		if r.Len >= 6 {
			held = append(held, sp)
			if len(c.Sizes)%2 == 0 {
				continue // first use of the regions of this case after all of them were handed out, last one first (below)
			}
			if err := c20Exec(sp, uint32(0xACC00000+i)); err != nil {
				return err
			}
			// full-length write round trip
			data := bytes.Repeat([]byte{byte(i), 0xC3}, r.Len/2)
			if len(data) > 4096 {
				data = data[:4096]
			}
			if err := Write(sp, data); err != nil {
				return fmt.Errorf("Write(%d bytes): %v", len(data), err)
			}
			if !bytes.Equal((*sp.Space)[:len(data)], data) {
				return fmt.Errorf("write of %d bytes at %#x does not read back", len(data), sp.Addr)
			}
		}
	}
	// every region handed out stays usable in any order: the regions of this case are written once more from the last
	// to the first, then the odd ones, each write reading back while the others keep what was written to them last
	if len(c.Sizes)%2 == 0 {
		for k := len(held) - 1; k >= 0; k-- {
			if err := c20Exec(held[k], uint32(0xACD00000+k)); err != nil {
				return err
			}
		}
		s.Class("regions-first-used-after-all-were-handed-out-in-reverse")
	}
	if len(held) >= 2 {
		want := make([][]byte, len(held))
		fill := func(k int, tag byte) error {
			sp := held[k]
			n := len(*sp.Space)
			if n > 4096 {
				n = 4096
			}
			data := bytes.Repeat([]byte{tag, byte(k), 0xC3}, n/3+1)[:n]
			if err := Write(sp, data); err != nil {
				return fmt.Errorf("re-write of region %d (%d bytes at %#x) out of hand-out order: %v", k, n, sp.Addr, err)
			}
			want[k] = data
			return nil
		}
		for k := len(held) - 1; k >= 0; k-- {
			if err := fill(k, 0xA0); err != nil {
				return err
			}
		}
		for k := 1; k < len(held); k += 2 {
			if err := fill(k, 0xB0); err != nil {
				return err
			}
		}
		for k, sp := range held {
			if !bytes.Equal((*sp.Space)[:len(want[k])], want[k]) {
				return fmt.Errorf("region %d at %#x no longer holds what was written to it last (another region's write reached it)", k, sp.Addr)
			}
		}
		s.Class("regions-rewritten-out-of-hand-out-order")
	}
	if err := c20Disjoint(c20Global); err != nil {
		return err
	}
	if len(c.Sizes) >= 2 {
		s.NonTrivial(fmt.Sprint("acq", c.Sizes))
	}
	s.Sample(c)
	return nil
}

func TestVerifC20(t *testing.T) {
	sizeGen := rapid.OneOf(rapid.IntRange(0, 64), rapid.IntRange(0, 64), rapid.IntRange(48, 48), rapid.IntRange(0, 4096),
		rapid.IntRange(4000, 110000))
	seq := &vkit.Prop{ID: "C20", Unit: "fallback-sequential",
		New: func() interface{} { return &c20SeqCase{} },
		Gen: func(rt *rapid.T) interface{} {
			return &c20SeqCase{Sizes: rapid.SliceOfN(sizeGen, 1, 120).Draw(rt, "sizes")}
		},
		Run: c20RunSeq}
	s := seq.Main(t, vkit.Scale(400, 5000))
	if !vkit.Replaying() {
		s.Note("reserve size %d bytes", placeHolderIns.max-placeHolderIns.min)
		s.Done()
	}
	conc := &vkit.Prop{ID: "C20", Unit: "fallback-concurrent",
		New: func() interface{} { return &c20ConcCase{} },
		Gen: func(rt *rapid.T) interface{} {
			return &c20ConcCase{G: rapid.IntRange(2, 16).Draw(rt, "g"),
				Sizes: rapid.SliceOfN(rapid.OneOf(rapid.IntRange(1, 8), rapid.IntRange(1, 64), rapid.Just(48)), 1, 6).Draw(rt, "sizes"),
				Start: rapid.IntRange(0, 1<<20).Draw(rt, "start")}
		},
		Run: c20RunConc}
	s = conc.Main(t, vkit.Scale(60, 300))
	if !vkit.Replaying() {
		s.Done()
	}
	acq := &vkit.Prop{ID: "C20", Unit: "acquire",
		New: func() interface{} { return &c20AcqCase{} },
		Gen: func(rt *rapid.T) interface{} {
			g := rapid.OneOf(rapid.Int64Range(1, 128), rapid.Just(int64(48)), rapid.Int64Range(1, 70000), rapid.Just(int64(0)),
				rapid.Int64Range(1<<47+1, 1<<62), rapid.Int64Range(4095, 4097), rapid.Int64Range(8191, 8193))
			return &c20AcqCase{Sizes: rapid.SliceOfN(g, 1, 12).Draw(rt, "sizes")}
		},
		Run: c20RunAcquire}
	s = acq.Main(t, vkit.Scale(300, 2000))
	if !vkit.Replaying() {
		s.Done()
	}
}

// TestVerifC20Rlimit runs in a build without the race detector (its runtime needs mmap itself).
func TestVerifC20Rlimit(t *testing.T) {
	if os.Getenv("VERIF_C20_CHILD") != "" {
		c20Child(t)
		return
	}
	if !vkit.Replaying() {
		c20Parent(t)
	}
}

// ---- fault injection: the mmap path made to fail for ordinary sizes ----
//
// A child copy of this test binary lowers RLIMIT_AS to its current address
// space size, so every anonymous mmap fails with ENOMEM and Acquire must take
// the fallback dispatch for ordinary sizes too (sequentially and concurrently).

func c20Parent(t *testing.T) {
	s := vkit.NewStats("C20", "acquire-mmap-failing")
	defer s.Flush()
	rounds := vkit.Scale(6, 16)
	for r := 0; r < rounds; r++ {
		g := 2 + int((vkit.Seed()+uint64(r)*5)%15)
		cmd := exec.Command(os.Args[0], "-test.run", "^TestVerifC20Rlimit$", "-test.v")
		cmd.Env = append(os.Environ(), "VERIF_C20_CHILD="+fmt.Sprint(g), "VERIF_REPLAY=")
		out, err := cmd.CombinedOutput()
		txt := string(out)
		s.Eval(1)
		switch {
		case strings.Contains(txt, "C20CHILD VIOLATION"):
			i := strings.Index(txt, "C20CHILD VIOLATION")
			msg := strings.SplitN(txt[i:], "\n", 2)[0]
			s.Violation("with the mmap path failing (RLIMIT_AS): "+msg, map[string]interface{}{"child_goroutines": g})
			t.Errorf("%s", msg)
			return
		case strings.Contains(txt, "C20CHILD OK"):
			i := strings.Index(txt, "C20CHILD OK")
			s.Class("child-rounds-ok")
			s.NonTrivial(fmt.Sprint("child", g, r))
			s.Sample(strings.SplitN(txt[i:], "\n", 2)[0])
		case strings.Contains(txt, "C20CHILD PHASE write"):
			i := strings.Index(txt, "C20CHILD PHASE write")
			lines := strings.Split(txt[i:], "\n")
			if len(lines) > 8 {
				lines = lines[:8]
			}
			msg := "the child died while writing its fallback regions through stub.Write, highest address first (limit already lifted): " + strings.Join(lines[1:], " | ")
			s.Violation("with the mmap path failing (RLIMIT_AS): "+msg, map[string]interface{}{"child_goroutines": g})
			t.Errorf("%s", msg)
			return
		default:
			// the limit also starves the Go runtime: not a statement about goom
			s.Exclude("child-died-under-rlimit")
			_ = err
		}
	}
	s.Completed = true
}

func debugSetGCPercent(p int) int { return debug.SetGCPercent(p) }

func c20Child(t *testing.T) {
	var g int
	fmt.Sscan(os.Getenv("VERIF_C20_CHILD"), &g)
	// pre-grow what the runtime will need, then forbid any further mapping
	// (many spans of every small size class, goroutine stacks), then free it for reuse
	var keep [][]byte
	for round := 0; round < 40; round++ {
		for sz := 8; sz <= 32768; sz = sz*5/4 + 8 {
			for k := 0; k < 24; k++ {
				keep = append(keep, make([]byte, sz))
			}
		}
	}
	var wwg sync.WaitGroup
	for k := 0; k < g+8; k++ {
		wwg.Add(1)
		go func() {
			defer wwg.Done()
			var pad [8192]byte
			pad[0] = 1
			local := make([]c20Region, 0, 4096)
			_ = append(local, c20Region{Len: int(pad[0])})
		}()
	}
	wwg.Wait()
	keep = nil
	runtime.GC()
	runtime.GC()
	old2 := debugSetGCPercent(-1)
	defer debugSetGCPercent(old2)
	b, _ := os.ReadFile("/proc/self/statm")
	var pages uint64
	fmt.Sscan(string(b), &pages)
	lim := syscall.Rlimit{Cur: pages * 4096, Max: ^uint64(0)}
	var old syscall.Rlimit
	_ = syscall.Getrlimit(9, &old) // RLIMIT_AS
	lim.Max = old.Max
	if err := syscall.Setrlimit(9, &lim); err != nil {
		fmt.Println("C20CHILD SKIP setrlimit:", err)
		return
	}
	lo, hi := placeHolderIns.min, placeHolderIns.max
	var mu sync.Mutex
	var all []c20Region
	var holders []*Space
	var viol atomic.Value
	var ready, goFlag int32
	var wg sync.WaitGroup
	fallback := int32(0)
	for k := 0; k < g; k++ {
		wg.Add(1)
		go func(k int) {
			defer wg.Done()
			local := make([]c20Region, 0, 4096)
			mine := make([]*Space, 0, 512)
			atomic.AddInt32(&ready, 1)
			for atomic.LoadInt32(&goFlag) == 0 {
			}
			fails := 0
			for i := 0; i < 3000 && fails < 3; i++ {
				n := 1 + (i+k)%48
				sp, err := Acquire(n)
				if err != nil {
					fails++
					continue
				}
				if sp.typ == TypeHolder {
					atomic.AddInt32(&fallback, 1)
					mine = append(mine, sp)
					if sp.Addr < lo || sp.Addr+uintptr(len(*sp.Space)) > hi {
						viol.Store(fmt.Sprintf("fallback region [%#x,+%d) outside the reserve", sp.Addr, len(*sp.Space)))
						return
					}
				}
				if len(*sp.Space) < n {
					viol.Store(fmt.Sprintf("asked %d got %d", n, len(*sp.Space)))
					return
				}
				local = append(local, c20Region{Addr: sp.Addr, Len: len(*sp.Space), Req: n, G: k})
			}
			mu.Lock()
			all = append(all, local...)
			holders = append(holders, mine...)
			mu.Unlock()
		}(k)
	}
	for atomic.LoadInt32(&ready) != int32(g) {
		runtime.Gosched()
	}
	atomic.StoreInt32(&goFlag, 1)
	wg.Wait()
	_ = syscall.Setrlimit(9, &old)
	if v := viol.Load(); v != nil {
		fmt.Println("C20CHILD VIOLATION", v)
		return
	}
	if err := c20Disjoint(all); err != nil {
		fmt.Println("C20CHILD VIOLATION", err)
		return
	}
	// every fallback region is writable through the provided writer, whatever the order of first use: highest address
	// first, each region with a pattern of its own, then all of them read back (the address-space limit is lifted again:
	// a death from here on is not the runtime starving)
	fmt.Println("C20CHILD PHASE write")
	sort.Slice(holders, func(i, j int) bool { return holders[i].Addr > holders[j].Addr })
	pat := func(k, n int) []byte { return bytes.Repeat([]byte{byte(k), byte(k >> 8), 0xC3}, n/3+1)[:n] }
	for k, sp := range holders {
		if err := Write(sp, pat(k, len(*sp.Space))); err != nil {
			fmt.Println("C20CHILD VIOLATION", fmt.Sprintf("Write to fallback region [%#x,+%d): %v", sp.Addr, len(*sp.Space), err))
			return
		}
	}
	for k, sp := range holders {
		if !bytes.Equal(*sp.Space, pat(k, len(*sp.Space))) {
			fmt.Println("C20CHILD VIOLATION", fmt.Sprintf("fallback region [%#x,+%d) does not hold what was written to it (another region's write reached it)", sp.Addr, len(*sp.Space)))
			return
		}
	}
	fmt.Printf("C20CHILD OK goroutines=%d regions=%d via-fallback=%d\n", g, len(all), fallback)
}
