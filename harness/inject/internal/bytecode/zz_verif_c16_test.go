//go:build go1.18 && amd64
// +build go1.18,amd64

package bytecode

import (
	"bytes"
	"fmt"
	"testing"

	"github.com/tencent/goom/zverif/vkit"
	refx86 "github.com/tencent/goom/zverif/refx86"
)

// TestVerifC16Extents - property C16, last clause: function-extent scanning sees the true instruction stream. For every
// function of the test binary whose extent the reference decoder walks cleanly, GetFuncSize (the scan goom bases "is the
// function long enough for the jump" and "does a branch lead back into the entry bytes" on) must return the distance to the
// next function, wherever page boundaries fall inside it.
func TestVerifC16Extents(t *testing.T) {
	if vkit.Replaying() {
		return
	}
	img := vkit.SnapshotText()
	s := vkit.NewStats("C16", "extents")
	sh, nsh := vkit.Shard()
	for i, f := range img.Im.Funcs {
		if i%nsh != sh {
			continue
		}
		entry := uintptr(f.Entry + img.Slide)
		end := uintptr(f.End + img.Slide)
		if end <= entry || end-entry > 1<<20 || !img.Contains(end-1) {
			continue
		}
		code := vkit.Bytes(entry, int(end-entry))
		// reference walk: every instruction decodable, INT3 only as trailing padding, no prologue fingerprint inside
		clean, padded, crossing := true, false, false
		pos := 0
		for pos < len(code) {
			if code[pos] == 0xcc {
				padded = true
				for _, b := range code[pos:] {
					if b != 0xcc {
						clean = false
					}
				}
				break
			}
			if pos > 0 && bytes.HasPrefix(code[pos:], funcPrologue) {
				clean = false
				break
			}
			in, err := refx86.Decode(code[pos:], 64)
			if err != nil || in.Len <= 0 {
				clean = false
				break
			}
			if (entry+uintptr(pos))/4096 != (entry+uintptr(pos+in.Len-1))/4096 {
				crossing = true
			}
			pos += in.Len
		}
		if !clean {
			s.Exclude("extent-not-walkable-by-the-reference(data, padding inside, assembly)")
			continue
		}
		if !padded {
			// no padding: goom's scan ends at the next function only if that one starts with the fingerprint it knows
			next := vkit.Bytes(end, len(funcPrologue))
			if !img.Contains(end+uintptr(len(funcPrologue))) || !bytes.Equal(next, funcPrologue) {
				s.Exclude("no-padding-and-next-function-without-the-known-prologue")
				continue
			}
		}
		s.Eval(1)
		got, err := GetFuncSize(64, entry, false)
		if err != nil || got != int(end-entry) {
			c := map[string]interface{}{"func": f.Name, "entry": fmt.Sprintf("%#x", entry), "extent": end - entry}
			msg := fmt.Sprintf("%s (entry %#x, %d bytes up to the next function, instruction across a page boundary: %v): GetFuncSize = %d (%v)", f.Name, entry, end-entry, crossing, got, err)
			s.Violation(msg, c)
			t.Fatalf("%s", msg)
		}
		s.Class("extent-agrees")
		if crossing {
			s.Class("extent-agrees/instruction-across-a-page-boundary")
		}
		s.NonTrivial(f.Name)
		if i%2003 == 0 {
			s.Sample(map[string]interface{}{"func": f.Name, "extent": end - entry, "page_crossing_instruction": crossing})
		}
	}
	s.Done()
}
