//go:build go1.18 && amd64 && linux
// +build go1.18,amd64,linux

package patch

import (
	"bytes"
	"encoding/json"
	"fmt"
	"os"
	"path/filepath"
	"strings"
	"syscall"
	"testing"

	// ballast: linked only so that their functions exist as prospective targets; nothing of them is executed
	_ "compress/flate"
	"go/parser"
	"go/printer"
	"go/types"
	"html/template"
	"math/big"
	"net/http"
	"regexp/syntax"
	"runtime/debug"
	ttemplate "text/template"

	"github.com/tencent/goom/internal/bytecode/memory"
	"github.com/tencent/goom/internal/logger"
	"github.com/tencent/goom/zverif/vkit"
	"pgregory.net/rapid"
)

// keep the ballast reachable for the linker (types with exported methods keep all their methods alive)
var c14Ballast = []interface{}{&types.Checker{}, &http.Client{}, &http.Server{}, &big.Int{}, &big.Float{}, &big.Rat{}, &syntax.Regexp{}, &ttemplate.Template{},
	&template.Template{}, &printer.Config{}, parser.ParseFile, &types.Config{}, &http.Transport{}}

var c14Allow = []string{"go/types.", "go/parser.", "go/ast.", "go/scanner.", "go/printer.", "net/http.", "text/template.", "text/template/parse.", "html/template.",
	"regexp/syntax.", "math/big.", "compress/flate.", "net/textproto.", "mime/multipart.", "go/constant.", "vendor/golang.org/x/net/", "crypto/tls.", "crypto/x509."}

// ---- synthetic code regions ----

type c14Layout struct {
	PageOff int    `json:"page_offset"` // offset of the target's entry within its page (4083..4095 = within 13 bytes of the page end)
	Body    int    `json:"body"`        // bytes of code of the target incl. the final RET
	Pad     int    `json:"padding"`     // INT3 bytes between target and neighbour
	Seed    uint64 `json:"seed"`        // instruction-pool choices
	// Undec > 0 (only with no padding): the bytes right behind the target are not decodable by goom's decoder (AVX-512 code of an
	// assembly routine, data in text): the extent scan must stop there
	Undec   int    `json:"undecodable_neighbour,omitempty"`
	WriteAt int    `json:"write_at"`    // raw write: offset from the region start
	WriteN  int    `json:"write_len"`
}

var c14Arena struct {
	base, size, next uintptr
}

const c14RegionPages = 4

func c14Carve() (uintptr, error) {
	if c14Arena.base == 0 {
		size := uintptr(vkit.Scale(6000, 45000)+64) * c14RegionPages * 4096
		a, err := vkit.MmapAt(0, int(size), syscall.PROT_NONE)
		if err != nil {
			return 0, err
		}
		c14Arena.base, c14Arena.size = a, size
		c14NoteRange("synthetic-arena", a, a+size)
	}
	if c14Arena.next+c14RegionPages*4096 > c14Arena.size {
		return 0, fmt.Errorf("arena exhausted")
	}
	p := c14Arena.base + c14Arena.next
	c14Arena.next += c14RegionPages * 4096 // never handed out twice: goom caches function sizes by address
	return p, nil
}

var c14Ranges = map[string][2]uint64{}

func c14NoteRange(name string, lo, hi uintptr) {
	c14Ranges[name] = [2]uint64{uint64(lo), uint64(hi)}
	b, _ := json.Marshal(c14Ranges)
	sh, _ := vkit.Shard()
	_ = os.WriteFile(filepath.Join(vkit.OutDir(), fmt.Sprintf("c14-ranges-%s-%d.json", os.Getenv("VERIF_UNIT"), sh)), b, 0o644)
}

var c14Pool = [][]byte{{0x90}, {0x48, 0x89, 0xC9}, {0x31, 0xC0}, {0x48, 0xFF, 0xC0}, {0x50}, {0x58}, {0x48, 0x83, 0xC0, 0x07}, {0x48, 0x8D, 0x40, 0x01},
	{0xB8, 0x01, 0x00, 0x00, 0x00}, {0x48, 0x85, 0xC0}, {0x66, 0x90}}

func c14Fill(dst []byte, n int, seed uint64) {
	// n bytes of straight-line code ending in RET
	i := 0
	x := seed | 1
	for i < n-1 {
		x = x*6364136223846793005 + 1442695040888963407
		ins := c14Pool[int(x>>33)%len(c14Pool)]
		if i+len(ins) > n-1 {
			ins = c14Pool[0]
		}
		copy(dst[i:], ins)
		i += len(ins)
	}
	dst[n-1] = 0xC3
}

//go:noinline
func c14Replacement() int { return 14 }

func c14Perm(addr uintptr, size int) string {
	maps := vkit.ReadMaps()
	perms := map[string]bool{}
	for a := addr &^ 4095; a < addr+uintptr(size); a += 4096 {
		perms[vkit.PermAt(maps, a)] = true
	}
	var out []string
	for p := range perms {
		out = append(out, p)
	}
	return strings.Join(out, ",")
}

func c14RunLayout(ci interface{}, s *vkit.Stats) error {
	c := ci.(*c14Layout)
	if c.Pad == 0 && c.Body < 16 && c.Undec == 0 {
		return nil // not a layout a linker produces and not one goom's extent scan can see (DESIGN 3/C14)
	}
	region, err := c14Carve()
	if err != nil {
		return nil
	}
	size := c14RegionPages * 4096
	if err := vkit.Mprotect(region, size, syscall.PROT_READ|syscall.PROT_WRITE); err != nil {
		return fmt.Errorf("harness: mprotect RW: %v", err)
	}
	mem := vkit.Bytes(region, size)
	// the surroundings are small functions separated by INT3 padding, as in a real text segment (goom's extent scan
	// stops at the next function)
	for i := 0; i+8 <= len(mem); i += 8 {
		copy(mem[i:], []byte{0x48, 0x89, 0xC9, 0xC3, 0xCC, 0xCC, 0xCC, 0xCC})
	}
	off := 4096 + c.PageOff%4096 // the target starts in the second page
	for i := off - 8; i < off; i++ {
		mem[i] = 0xCC // padding before the entry
	}
	c14Fill(mem[off:], c.Body, c.Seed)
	noff := off + c.Body + c.Pad
	nlen := 24
	for i := off + c.Body; i < noff; i++ {
		mem[i] = 0xCC
	}
	c14Fill(mem[noff:], nlen, c.Seed+99) // the neighbour function
	if c.Pad == 0 && c.Undec > 0 {
		copy(mem[noff:], [][]byte{{0x62, 0xf1, 0x7c, 0x48, 0x10, 0xc0}, {0x06, 0x06, 0x06, 0x06}, {0xd6, 0xd6, 0xd6}}[(c.Undec-1)%3])
	}
	for i := noff + nlen; i < noff+nlen+8; i++ {
		mem[i] = 0xCC
	}
	copy(mem[noff+nlen+8:], []byte{0x48, 0x89, 0xC9, 0xC3}) // and the function after it
	if err := vkit.Mprotect(region, size, syscall.PROT_READ|syscall.PROT_EXEC); err != nil {
		return fmt.Errorf("harness: mprotect RX: %v", err)
	}
	defer syscall.Syscall(syscall.SYS_MUNMAP, region, uintptr(size), 0)
	before := append([]byte(nil), mem...)
	entry := region + uintptr(off)
	desc := fmt.Sprintf("target at page offset %d, %d code bytes + %d padding, neighbour at +%d", off%4096, c.Body, c.Pad, c.Body+c.Pad)

	var g *Guard
	var perr error
	if r := c03Refusal(func() { g, perr = PtrTrampoline(entry, c14Replacement, nil) }); r != nil {
		perr = fmt.Errorf("panic: %v", r)
	}
	if c.Pad == 0 && c.Undec > 0 {
		s.Class("target-followed-directly-by-undecodable-bytes")
	}
	if perr != nil {
		if !bytes.Equal(mem, before) {
			return fmt.Errorf("%s: patch refused (%v) but bytes changed", desc, perr)
		}
		s.Class("refused")
		if c.Body+c.Pad <= 13 {
			s.Class("refused/too-short")
		}
		// asking again does not change the answer (half of the refused cases ask a second and a third time)
		if c.Seed%2 == 0 {
			for attempt := 2; attempt <= 3; attempt++ {
				var g2 *Guard
				var perr2 error
				if r := c03Refusal(func() { g2, perr2 = PtrTrampoline(entry, c14Replacement, nil) }); r != nil {
					perr2 = fmt.Errorf("panic: %v", r)
				}
				if perr2 == nil {
					if g2 != nil {
						g2.Apply()
						g2.UnpatchWithLock()
					}
					return fmt.Errorf("%s: refused at first (%v) but accepted at attempt %d", desc, perr, attempt)
				}
				if !bytes.Equal(mem, before) {
					return fmt.Errorf("%s: attempt %d refused (%v) but bytes changed", desc, attempt, perr2)
				}
			}
			s.Class("refused/asked-again")
		}
	} else {
		if c.Body+c.Pad < 13 {
			return fmt.Errorf("%s: accepted although the function (code + padding = %d bytes) cannot hold the 13-byte jump", desc, c.Body+c.Pad)
		}
		g.Apply()
		jump := jmpToFunctionValue(entry, 0)
		for i := 0; i < size; i++ {
			inside := i >= off && i < off+len(jump)
			if !inside && mem[i] != before[i] {
				what := "padding/other"
				if i >= noff && i < noff+nlen {
					what = "the neighbouring function"
				}
				return fmt.Errorf("%s: applying the patch changed byte +%d (%s): %#x -> %#x", desc, i-off, what, before[i], mem[i])
			}
		}
		got := mem[off : off+len(jump)]
		if got[0] != 0x90 || got[1] != 0x48 || got[2] != 0xBA || got[11] != 0xFF || got[12] != 0x22 {
			return fmt.Errorf("%s: entry bytes after apply are % x, not the entry jump (a write straddling a page boundary must land intact)", desc, got)
		}
		if p := c14Perm(region, size); p != "r-xp" {
			return fmt.Errorf("%s: after apply the region's pages have protection %s, want r-xp only", desc, p)
		}
		g.UnpatchWithLock()
		if !bytes.Equal(mem, before) {
			return fmt.Errorf("%s: unpatch did not restore the bytes exactly", desc)
		}
		s.Class("accepted")
		if off%4096 > 4096-13 {
			s.Class("accepted/entry-within-13-bytes-of-page-end")
		}
	}
	// raw write across page boundaries
	if c.WriteN > 0 {
		wat := c.WriteAt % (size - c.WriteN)
		data := make([]byte, c.WriteN)
		for i := range data {
			data[i] = byte(0x10 + (i+int(c.Seed))%200)
		}
		snap := append([]byte(nil), mem...)
		if r := c03Refusal(func() {
			defer debug.SetPanicOnFault(debug.SetPanicOnFault(true)) // a write into a page left read-only becomes a reported failure
			perr = memory.WriteTo(region+uintptr(wat), data)
		}); r != nil || perr != nil {
			return fmt.Errorf("%s: WriteTo(+%d, %d bytes) failed: %v %v", desc, wat, c.WriteN, r, perr)
		}
		for i := 0; i < size; i++ {
			want := snap[i]
			if i >= wat && i < wat+c.WriteN {
				want = data[i-wat]
			}
			if mem[i] != want {
				return fmt.Errorf("%s: WriteTo(+%d, %d bytes): byte +%d is %#x, want %#x", desc, wat, c.WriteN, i, mem[i], want)
			}
		}
		if p := c14Perm(region, size); p != "r-xp" {
			return fmt.Errorf("%s: after WriteTo the pages have protection %s, want r-xp", desc, p)
		}
		if (wat/4096) != ((wat + c.WriteN - 1) / 4096) {
			s.Class("write-crossing-a-page-boundary")
		}
		if c.WriteN%4096 == 0 && wat%4096 != 0 {
			s.Class("write-of-whole-pages-at-an-unaligned-address")
		}
	}
	if off%4096 > 4096-13 || (c.Body+c.Pad >= 10 && c.Body+c.Pad <= 16) || (c.WriteN > 0 && (c.WriteAt%(size-c.WriteN))/4096 != ((c.WriteAt%(size-c.WriteN))+c.WriteN-1)/4096) {
		s.NonTrivial(fmt.Sprintf("%d/%d/%d/%d/%d", off%4096, c.Body, c.Pad, c.WriteAt, c.WriteN))
	}
	s.Sample(c)
	return nil
}

func TestVerifC14Synthetic(t *testing.T) {
	logger.LogLevel = 0
	p := &vkit.Prop{ID: "C14", Unit: "synthetic", New: func() interface{} { return &c14Layout{} },
		Gen: func(rt *rapid.T) interface{} {
			c := &c14Layout{Seed: rapid.Uint64().Draw(rt, "seed")}
			c.PageOff = rapid.OneOf(rapid.IntRange(4080, 4095), rapid.IntRange(0, 4095), rapid.IntRange(4083, 4095)).Draw(rt, "pageoff")
			c.Body = rapid.OneOf(rapid.IntRange(1, 20), rapid.IntRange(1, 200), rapid.IntRange(10, 16)).Draw(rt, "body")
			c.Pad = rapid.OneOf(rapid.IntRange(0, 3), rapid.IntRange(0, 40), rapid.IntRange(1, 15)).Draw(rt, "pad")
			if rapid.IntRange(0, 9).Draw(rt, "undec?") == 0 {
				c.Pad = 0
				c.Undec = rapid.IntRange(1, 3).Draw(rt, "undec")
				c.Body = rapid.IntRange(1, 40).Draw(rt, "body-undec")
			}
			if rapid.Bool().Draw(rt, "rawwrite") {
				c.WriteN = rapid.OneOf(rapid.IntRange(1, 32), rapid.IntRange(1, 9000),
					rapid.Custom(func(t *rapid.T) int { // whole pages, give or take a few bytes
						return 4096*rapid.IntRange(1, 3).Draw(t, "pages") + rapid.IntRange(-3, 3).Draw(t, "delta")
					})).Draw(rt, "wlen")
				if rapid.Bool().Draw(rt, "near-boundary") {
					c.WriteAt = 4096*rapid.IntRange(1, 3).Draw(rt, "page") - rapid.IntRange(0, 16).Draw(rt, "back")
				} else {
					c.WriteAt = rapid.IntRange(0, c14RegionPages*4096).Draw(rt, "wat")
				}
			}
			return c
		},
		Run: c14RunLayout}
	s := p.Main(t, vkit.Scale(5000, 40000))
	if !vkit.Replaying() {
		s.Done()
	}
}

// ---- every function of the ballast packages of the real binary ----

type c14Real struct {
	Func string `json:"func"`
}

func TestVerifC14Real(t *testing.T) {
	if vkit.Replaying() {
		return
	}
	logger.LogLevel = 0
	_ = c14Ballast
	s := vkit.NewStats("C14", "real-binary")
	defer s.Flush()
	img := vkit.SnapshotText()
	c14NoteRange("text", img.Addr, img.Addr+uintptr(len(img.Live)))
	var cands []vkit.Func
	for _, f := range img.Im.Funcs {
		for _, pfx := range c14Allow {
			if strings.HasPrefix(f.Name, pfx) {
				cands = append(cands, f)
				break
			}
		}
	}
	s.Note("text %d bytes, %d functions, %d in the ballast allow-list", len(img.Live), len(img.Im.Funcs), len(cands))
	sh, nsh := vkit.Shard()
	step := 1
	if !vkit.Thorough() && len(cands) > 2500 {
		step = len(cands)/2500 + 1
	}
	start := int(vkit.Seed()) % step
	for i := start; i < len(cands); i += step {
		if (i/step)%nsh != sh {
			continue
		}
		f := cands[i]
		entry := uintptr(f.Entry + img.Slide)
		c := &c14Real{Func: f.Name}
		s.Eval(1)
		fail := func(msg string) {
			s.Violation(f.Name+": "+msg, c)
			t.Errorf("%s: %s", f.Name, msg)
		}
		var g *Guard
		var perr error
		if r := c03Refusal(func() { g, perr = Ptr(entry, c14Replacement) }); r != nil {
			perr = fmt.Errorf("panic: %v", r)
		}
		if perr != nil {
			if d := img.Diff(); len(d) != 0 {
				fail("patch refused (" + perr.Error() + ") but the image changed: " + img.Describe(d))
				return
			}
			s.Class("refused")
			continue
		}
		g.Apply()
		d := img.Diff()
		if bad := vkit.Outside(d, []vkit.Range{{Lo: entry, Hi: entry + 13}}); len(bad) != 0 {
			fail(fmt.Sprintf("applying the patch (function extent %d bytes) changed bytes outside its 13 entry bytes: %s", f.End-f.Entry, img.Describe(bad)))
			return
		}
		if len(d) == 0 {
			fail("applying the patch changed nothing")
			return
		}
		if w := img.WritableTextPages(); len(w) != 0 {
			fail(fmt.Sprintf("after apply a text page is %s (%#x-%#x)", w[0].Perm, w[0].Lo, w[0].Hi))
			return
		}
		g.UnpatchWithLock()
		if d := img.Diff(); len(d) != 0 {
			fail("unpatch left the image different from pristine: " + img.Describe(d))
			return
		}
		s.Class("patched-and-restored")
		if f.End-f.Entry < 48 {
			s.Class("patched-and-restored/tiny-function(<48B)")
		}
		s.NonTrivial(f.Name)
		if i%397 == 0 {
			s.Sample(c)
		}
	}
	if w := img.WritableTextPages(); len(w) != 0 {
		s.Violation(fmt.Sprintf("at the end a text page is %s", w[0].Perm), map[string]string{"what": "final maps"})
		t.Errorf("writable text page at the end")
		return
	}
	s.Completed = true
}
