//go:build go1.18 && amd64 && linux
// +build go1.18,amd64,linux

package patch

import (
	"bytes"
	"fmt"
	"os"
	"runtime"
	"syscall"
	"testing"

	"github.com/tencent/goom/internal/bytecode"
	"github.com/tencent/goom/internal/bytecode/memory"
	"github.com/tencent/goom/internal/logger"
	"github.com/tencent/goom/zverif/reloc"
	"github.com/tencent/goom/zverif/vkit"
)

// ---- property C03, static half: every function of the test binary x trampoline positions ----

const c03Slot = 256 // bytes per synthetic placeholder: filler + RET + INT3 padding

type c03Arena struct {
	base uintptr
	size int
	next int
}

// newArena maps a region of synthetic placeholders near `hint` and fills it with placeholder bodies.
func c03NewArena(hint uintptr, slots int) (*c03Arena, error) {
	size := (slots*c03Slot + 8192) &^ 4095
	addr, err := vkit.MmapAt(hint, size, syscall.PROT_READ|syscall.PROT_WRITE|syscall.PROT_EXEC)
	if err != nil {
		return nil, err
	}
	b := vkit.Bytes(addr, size)
	for i := 0; i+c03Slot <= size; i += c03Slot {
		fillSlot(b[i : i+c03Slot])
	}
	// like Go text, placeholders live in pages without write permission
	if err := vkit.Mprotect(addr, size, syscall.PROT_READ|syscall.PROT_EXEC); err != nil {
		return nil, err
	}
	return &c03Arena{base: addr, size: size}, nil
}

func fillSlot(s []byte) {
	i := 0
	for ; i+3 <= len(s)-16; i += 3 {
		copy(s[i:], []byte{0x48, 0x89, 0xC9}) // MOVQ CX, CX
	}
	for ; i < len(s)-16; i++ {
		s[i] = 0x90
	}
	s[i] = 0xC3
	for i++; i < len(s); i++ {
		s[i] = 0xCC
	}
}

func (a *c03Arena) take() (uintptr, bool) {
	if (a.next+2)*c03Slot > a.size {
		return 0, false
	}
	p := a.base + uintptr(a.next*c03Slot)
	a.next++
	return p, true
}

type c03Case struct {
	Func     string `json:"func"`
	Entry    uint64 `json:"entry"`
	Position string `json:"position"`
	Tramp    uint64 `json:"trampoline"`
}

func c03Refusal(f func()) (refused interface{}) {
	defer func() {
		if r := recover(); r != nil {
			refused = r
		}
	}()
	f()
	return nil
}

// c03Check validates one (function, trampoline address) pair. It never executes the trampoline.
func c03Check(entry uintptr, fnEnd uintptr, tramp uintptr, s *vkit.Stats) (err error) {
	size, e := bytecode.GetFuncSize(defaultArchMod, entry, false)
	if e != nil {
		size = defaultFuncSize
	}
	orig := memory.RawRead(entry, size)
	before := append([]byte(nil), vkit.Bytes(tramp, c03Slot)...)
	origBefore := append([]byte(nil), orig...)

	var fixed []byte
	var n int
	var ferr error
	if r := c03Refusal(func() { fixed, n, ferr = fixRelativeAddr(entry, orig, tramp, size, 13) }); r != nil {
		ferr = fmt.Errorf("panic: %v", r)
	}
	// the write path (what Apply with an origin placeholder really does); for one function in eight with trace logging on, as after
	// mocker.OpenTrace() (what is written must not depend on the logging mode)
	var werr error
	traced := (entry>>5)%8 == 3
	if traced {
		if c03DevNull == nil {
			c03DevNull, _ = os.OpenFile(os.DevNull, os.O_WRONLY, 0)
		}
		c03Stdout := os.Stdout
		os.Stdout = c03DevNull
		logger.OpenTrace()
		defer func() {
			logger.CloseTrace()
			logger.LogLevel = 0
			os.Stdout = c03Stdout
		}()
		s.Class("built-with-trace-logging-on")
	}
	if r := c03Refusal(func() { _, werr = fixOriginFuncToTrampoline(entry, tramp, 13) }); r != nil {
		werr = fmt.Errorf("panic: %v", r)
	}
	after := vkit.Bytes(tramp, c03Slot)
	if !bytes.Equal(memory.RawRead(entry, size), origBefore) {
		return fmt.Errorf("building the trampoline changed the function itself")
	}
	if ferr != nil || werr != nil {
		// refusal: the placeholder must be unchanged
		if (ferr == nil) != (werr == nil) && ferr != nil {
			return fmt.Errorf("fixRelativeAddr refuses (%v) but the trampoline was written", ferr)
		}
		if !bytes.Equal(before, after) {
			return fmt.Errorf("trampoline refused (%v / %v) but the placeholder bytes changed", ferr, werr)
		}
		s.Class("refused")
		msg := fmt.Sprint(ferr, werr)
		switch {
		case bytes.Contains([]byte(msg), []byte("address overflow")):
			s.Class("refused/unsupported-short-branch")
		case bytes.Contains([]byte(msg), []byte("not support of jump to inside")):
			s.Class("refused/branch-into-prefix")
		default:
			s.Class("refused/other")
		}
		s.NonTrivial(fmt.Sprintf("refused/%#x/%#x", entry, tramp))
		return nil
	}
	// accepted: validate the written bytes
	wlen := 0
	for i := c03Slot - 1; i >= 0; i-- {
		if after[i] != before[i] {
			wlen = i + 1
			break
		}
	}
	// the written extent is at least prefix+jump; bytes equal to the filler by coincidence are not "written": use the computed length
	expect := len(fixed) + 5
	if wlen > expect {
		return fmt.Errorf("trampoline write touched %d bytes, relocated prefix + jump is %d", wlen, expect)
	}
	written := append([]byte(nil), after[:expect]...)
	prefix, jerr := reloc.SplitJumpBack(written, uint64(tramp), uint64(entry), n)
	if jerr != nil {
		return jerr
	}
	if !bytes.Equal(prefix, fixed) {
		return fmt.Errorf("written prefix differs from fixRelativeAddr's result")
	}
	info, verr := reloc.Validate(orig, uint64(entry), n, prefix, uint64(tramp), 13)
	if verr != nil {
		return verr
	}
	// no instruction of the function may branch into the overwritten entry bytes
	ext := int(fnEnd - entry)
	if ext > 0 && ext <= 1<<20 {
		full := memory.RawRead(entry, ext)
		if found, _, desc := reloc.BranchInto(full, 13); found {
			return fmt.Errorf("accepted although %s, i.e. into the %d bytes the entry jump overwrites", desc, 13)
		}
	}
	s.Class("accepted")
	s.Class("shape/" + info.Shape)
	if info.PCRel > 0 || info.Widened > 0 {
		s.NonTrivial(fmt.Sprintf("%#x/%#x", entry, tramp))
	}
	if info.Widened > 0 {
		s.Class("accepted/widened-branch")
	}
	if info.TrailImm > 0 {
		s.Class("accepted/riprel-with-trailing-immediate")
	}
	if info.Calls > 0 {
		s.Class("accepted/call-in-prefix")
	}
	return nil
}

var c03DevNull *os.File

var c03Positions = []struct {
	name string
	hint uintptr
}{
	{"before-text", 0x200000},
	{"after-near", 0},          // filled in: just after the image
	{"after-256MiB", 0x10400000},
	{"after-far(<2GiB)", 0x7e000000},
	{"after-1GiB", 0x40400000},
	{"after-16MiB", 0x1400000},
}

func TestVerifC03Static(t *testing.T) {
	if vkit.Replaying() {
		c03Replay(t)
		return
	}
	logger.LogLevel = 0 // the log file is not under test here
	s := vkit.NewStats("C03", "static")
	defer s.Flush()
	img := vkit.SnapshotText()
	npos := vkit.Scale(3, 6)
	sh, nsh := vkit.Shard()
	funcs := img.Im.Funcs
	var arenas []*c03Arena
	for i := 0; i < npos; i++ {
		p := c03Positions[i]
		hint := p.hint
		if p.name == "after-near" {
			hint = (img.Addr + uintptr(len(img.Live)) + 0x800000) &^ 0xfff
		}
		if p.name == "before-text" {
			need := uintptr(((len(funcs)/nsh+64)*c03Slot + 8192 + 0xffff) &^ 0xffff)
			base := (img.Addr - 0x1000) &^ 0xffff // start of the image
			if base > need+0x20000 {
				hint = base - need - 0x10000
			}
		}
		a, err := c03NewArena(hint, len(funcs)/nsh+64)
		if err != nil {
			t.Fatalf("mmap arena %s: %v", p.name, err)
		}
		d := int64(a.base) - int64(img.Addr)
		if d > 0x7ff00000 || d < -0x7ff00000 {
			s.Note("position %s: kernel placed the arena %d bytes from the text; skipped (placeholders lie in the text segment, within 2GiB)", p.name, d)
			arenas = append(arenas, nil)
			continue
		}
		s.Note("position %s: arena at %#x (%+d MiB from text)", p.name, a.base, d>>20)
		arenas = append(arenas, a)
	}
	diffBefore := img.Diff()
	for fi, f := range funcs {
		if fi%nsh != sh {
			continue
		}
		entry := uintptr(f.Entry + img.Slide)
		for pi, a := range arenas {
			if a == nil {
				continue
			}
			tramp, ok := a.take()
			if !ok {
				continue
			}
			c := &c03Case{Func: f.Name, Entry: uint64(entry), Position: c03Positions[pi].name, Tramp: uint64(tramp)}
			s.Eval(1)
			var err error
			if r := c03Refusal(func() { err = c03Check(entry, uintptr(f.End+img.Slide), tramp, s) }); r != nil {
				err = fmt.Errorf("harness panic: %v", r)
			}
			if err != nil {
				msg := fmt.Sprintf("%s (entry %#x, placeholder %s at %#x): %v", f.Name, entry, c.Position, tramp, err)
				s.Violation(msg, c)
				t.Errorf("%s", msg)
				return
			}
			if fi%1231 == 0 {
				s.Sample(c)
			}
		}
	}
	if d := img.Diff(); len(d) != len(diffBefore) {
		msg := "building trampolines changed the program text: " + img.Describe(d)
		s.Violation(msg, map[string]string{"what": "text diff after static sweep"})
		t.Errorf("%s", msg)
		return
	}
	runtime.KeepAlive(arenas)
	s.Completed = true
}

// replay: same function (by name) and same kind of position
func c03Replay(t *testing.T) {
	p := &vkit.Prop{ID: "C03", Unit: "static", New: func() interface{} { return &c03Case{} },
		Run: func(ci interface{}, s *vkit.Stats) error {
			c := ci.(*c03Case)
			logger.LogLevel = 0
			img := vkit.SnapshotText()
			f, ok := img.Im.FuncByName(c.Func)
			if !ok {
				return fmt.Errorf("function %s is not in this binary", c.Func)
			}
			hint := uintptr(c.Tramp) &^ 0xfff
			a, err := c03NewArena(hint, 16)
			if err != nil {
				return err
			}
			tramp, _ := a.take()
			return c03Check(uintptr(f.Entry+img.Slide), uintptr(f.End+img.Slide), tramp, s)
		}}
	p.Main(t, 0)
}

// ---- placeholders that are just big enough / just too small (the write must stay inside the placeholder's own body) ----

type c03TightCase struct {
	Func  string `json:"func"`
	Need  int    `json:"bytes_needed"`
	Size  int    `json:"placeholder_size"`
	Tramp uint64 `json:"placeholder"`
}

func TestVerifC03Tight(t *testing.T) {
	if vkit.Replaying() {
		return
	}
	logger.LogLevel = 0
	prop := os.Getenv("VERIF_TIGHT_PROP") // the same sweep serves C03 (faithful trampoline or refusal) and C14 (write stays inside the placeholder)
	if prop == "" {
		prop = "C03"
	}
	s := vkit.NewStats(prop, "tight-placeholders")
	defer s.Flush()
	img := vkit.SnapshotText()
	hint := (img.Addr + uintptr(len(img.Live)) + 0x4000000) &^ 0xfff
	const cell = 128
	nfun := vkit.Scale(1200, 12000)
	size := (nfun*9*cell + 8192) &^ 4095
	base, err := vkit.MmapAt(hint, size, syscall.PROT_READ|syscall.PROT_WRITE|syscall.PROT_EXEC)
	if err != nil {
		t.Fatalf("mmap: %v", err)
	}
	if prop == "C14" {
		// the run is traced (strace, mprotect): every protection change on the placeholder arena must keep PROT_EXEC
		c14NoteRange("synthetic-arena", base, base+uintptr(size))
	}
	mem := vkit.Bytes(base, size)
	next := 0
	sh, nsh := vkit.Shard()
	funcs := img.Im.Funcs
	step := len(funcs)/nfun + 1
	neighbour := []byte{0xB8, 0x2A, 0x00, 0x00, 0x00, 0xC3, 0xCC, 0xCC, 0x48, 0x89, 0xC9, 0xC3, 0xCC, 0xCC, 0xCC, 0xCC}
	for fi := int(vkit.Seed()) % step; fi < len(funcs); fi += step {
		if (fi/step)%nsh != sh {
			continue
		}
		f := funcs[fi]
		entry := uintptr(f.Entry + img.Slide)
		fsize, e := bytecode.GetFuncSize(defaultArchMod, entry, false)
		if e != nil {
			continue
		}
		orig := memory.RawRead(entry, fsize)
		// how many bytes does the trampoline of this function need at this distance?
		probe := base + uintptr(next*cell)
		var fixed []byte
		var ferr error
		if r := c03Refusal(func() { fixed, _, ferr = fixRelativeAddr(entry, orig, probe, fsize, 13) }); r != nil || ferr != nil {
			continue // refused prologues are the static unit's business
		}
		need := len(fixed) + 5
		for _, n := range []int{need - 4, need - 3, need - 2, need - 1, need, need + 1, need + 3} {
			if n < 15 || n > cell-24 || (next+2)*cell > size {
				continue
			}
			slot := mem[next*cell : (next+1)*cell]
			tramp := base + uintptr(next*cell)
			next++
			// goom leaves the pages it wrote read+execute: make this cell writable for the harness again
			if err := vkit.Mprotect(tramp&^4095, 8192, syscall.PROT_READ|syscall.PROT_WRITE|syscall.PROT_EXEC); err != nil {
				t.Fatalf("mprotect: %v", err)
			}
			// [placeholder: n-2 bytes of filler, RET, INT3][neighbour function][another function]...
			i := 0
			for ; i+3 <= n-2; i += 3 {
				copy(slot[i:], []byte{0x48, 0x89, 0xC9})
			}
			for ; i < n-2; i++ {
				slot[i] = 0x90
			}
			slot[n-2] = 0xC3
			slot[n-1] = 0xCC
			for j := n; j < cell; j += len(neighbour) {
				copy(slot[j:], neighbour)
			}
			before := append([]byte(nil), slot...)
			c := &c03TightCase{Func: f.Name, Need: need, Size: n, Tramp: uint64(tramp)}
			s.Eval(1)
			var werr error
			if r := c03Refusal(func() { _, werr = fixOriginFuncToTrampoline(entry, tramp, 13) }); r != nil {
				werr = fmt.Errorf("panic: %v", r)
			}
			for j := n; j < cell; j++ {
				if slot[j] != before[j] {
					msg := fmt.Sprintf("%s: trampoline needs %d bytes, placeholder body is %d bytes (apply error: %v): byte +%d of the neighbouring function changed from %#x to %#x", f.Name, need, n, werr, j-n, before[j], slot[j])
					s.Violation(msg, c)
					t.Errorf("%s", msg)
					return
				}
			}
			if werr != nil {
				if !bytes.Equal(slot, before) {
					msg := fmt.Sprintf("%s: placeholder of %d bytes refused (%v) but its bytes changed", f.Name, n, werr)
					s.Violation(msg, c)
					t.Errorf("%s", msg)
					return
				}
				s.Class("refused-too-small")
			} else {
				if n < need {
					msg := fmt.Sprintf("%s: trampoline needs %d bytes but a placeholder of %d bytes was accepted", f.Name, need, n)
					s.Violation(msg, c)
					t.Errorf("%s", msg)
					return
				}
				s.Class("accepted")
			}
			if n >= need-4 && n <= need+1 {
				s.NonTrivial(fmt.Sprintf("%s/%d", f.Name, n))
			}
			if need > 18+5 {
				s.Class("trampoline-with-widened-branch-or-long-prefix")
			}
			if fi%997 == 0 {
				s.Sample(c)
			}
		}
	}
	if d := img.Diff(); len(d) != 0 {
		s.Violation("text image changed: "+img.Describe(d), map[string]string{"what": "diff"})
		t.Errorf("text changed")
		return
	}
	s.Completed = true
}
