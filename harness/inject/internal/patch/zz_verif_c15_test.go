//go:build go1.18 && amd64
// +build go1.18,amd64

package patch

import (
	"bytes"
	"fmt"
	"reflect"
	"testing"
	"unsafe"

	"github.com/tencent/goom/zverif/vkit"
	"pgregory.net/rapid"

	"github.com/tencent/goom/zverif/c15kit"
	"github.com/tencent/goom/zverif/x86eval"
	refx86 "github.com/tencent/goom/zverif/refx86"
)

// TestVerifC15 — property C15, amd64 emitters of package patch: the entry jump
// (jmpToFunctionValue) and the trampoline's return jump (jmpToOriginFunctionValue).
func TestVerifC15(t *testing.T) {
	entry := c15kit.Emitter{
		Name: "jmpToFunctionValue",
		Emit: func(from, to uint64) []byte { return jmpToFunctionValue(uintptr(from), uintptr(to)) },
		Judge: func(code []byte, from, to uint64) error {
			r, err := x86eval.EvalJump(code, 64, from)
			if err != nil {
				return err
			}
			if !r.Nop {
				return fmt.Errorf("entry jump does not start with the NOP sentinel")
			}
			if r.Kind != "abs" || r.Reg != refx86.RDX {
				return fmt.Errorf("entry jump is %s through %v, want absolute through RDX", r.Kind, r.Reg)
			}
			if r.RegValue != to {
				return fmt.Errorf("RDX holds %#x, want %#x", r.RegValue, to)
			}
			if !checkAlreadyPatch(code) {
				return fmt.Errorf("emitted entry jump is not recognised by checkAlreadyPatch")
			}
			return nil
		},
	}
	ret := c15kit.Emitter{
		Name:     "jmpToOriginFunctionValue",
		UsesFrom: true,
		Emit:     func(from, to uint64) []byte { return jmpToOriginFunctionValue(uintptr(from), uintptr(to)) },
		Judge: func(code []byte, from, to uint64) error {
			r, err := x86eval.EvalJump(code, 64, from)
			if err != nil {
				return err
			}
			if r.Nop {
				return fmt.Errorf("return jump starts with a NOP")
			}
			switch r.Kind {
			case "rel":
				if r.Target != to {
					return fmt.Errorf("relative form chosen but the jump lands on %#x, want %#x (off by %d)", r.Target, to, int64(r.Target-to))
				}
				if (len(code) == 5) != relative(uintptr(from), uintptr(to)) {
					return fmt.Errorf("relative() and the emitted form disagree")
				}
			case "abs":
				if r.Reg != refx86.RDX || r.RegValue != to {
					return fmt.Errorf("absolute form loads %v=%#x, want RDX=%#x", r.Reg, r.RegValue, to)
				}
			}
			return nil
		},
	}
	c15kit.Run(t, "amd64-patch", []c15kit.Emitter{entry, ret})
}

// ---- guard histories: the jump a guard writes is the one that was emitted for it, whatever else was patched meanwhile ----

//go:noinline
func c15t0(x int) int { return c15pad(x) + 1 }

//go:noinline
func c15t1(x int) int { return c15pad(x) + 2 }

//go:noinline
func c15t2(x int) int { return c15pad(x) + 3 }

//go:noinline
func c15t3(x int) int { return c15pad(x) + 4 }

//go:noinline
func c15t4(x int) int { return c15pad(x) + 5 }

//go:noinline
func c15pad(x int) int { return x*10 + x/3 - x%7 }

func c15r0(x int) int { return 1000 + x }
func c15r1(x int) int { return 2000 + x }
func c15r2(x int) int { return 3000 + x }
func c15r3(x int) int { return 4000 + x }
func c15r4(x int) int { return 5000 + x }
func c15r5(x int) int { return 6000 + x }

type guardOp struct {
	K string `json:"k"` // patch | apply | unpatch | restore
	I int    `json:"target"`
	S int    `json:"replacement"`
}

type guardCase struct {
	Ops []guardOp `json:"ops"`
}

func runGuards(ci interface{}, s *vkit.Stats) (err error) {
	c := ci.(*guardCase)
	targets := []func(int) int{c15t0, c15t1, c15t2, c15t3, c15t4}
	repls := []func(int) int{c15r0, c15r1, c15r2, c15r3, c15r4, c15r5}
	type st struct {
		g       *Guard
		repl    int
		state   string // none | prepared | applied | unpatched
		entry   uintptr
		pristine []byte
	}
	ts := make([]*st, len(targets))
	for i, f := range targets {
		e := reflect.ValueOf(f).Pointer()
		ts[i] = &st{state: "none", entry: e, pristine: append([]byte(nil), vkit.Bytes(e, 16)...)}
	}
	defer func() {
		for _, t := range ts {
			if t.g != nil {
				t.g.UnpatchWithLock()
			}
		}
		lock()
		for k := range patches {
			delete(patches, k)
		}
		unlock()
		for i, t := range ts {
			if err == nil && !bytes.Equal(vkit.Bytes(t.entry, 16), t.pristine) {
				err = fmt.Errorf("after unpatching everything the entry of target %d reads % x, want % x", i, vkit.Bytes(t.entry, 16), t.pristine)
			}
		}
	}()
	check := func(step int, what string) error {
		for i, t := range ts {
			live := vkit.Bytes(t.entry, 16)
			got := targets[i](5)
			if t.state != "applied" {
				if !bytes.Equal(live, t.pristine) {
					return fmt.Errorf("step %d (%s): target %d is not diverted (%s) but its entry reads % x, want % x", step, what, i, t.state, live, t.pristine)
				}
				if want := c15pad(5) + i + 1; got != want {
					return fmt.Errorf("step %d (%s): target %d is not diverted but returned %d, want %d", step, what, i, got, want)
				}
				continue
			}
			r, err := x86eval.EvalJump(live[:13], 64, uint64(t.entry))
			if err != nil {
				return fmt.Errorf("step %d (%s): entry of diverted target %d (% x): %v", step, what, i, live[:13], err)
			}
			if r.Kind != "abs" || r.Reg != refx86.RDX {
				return fmt.Errorf("step %d (%s): entry of diverted target %d is %s through %v", step, what, i, r.Kind, r.Reg)
			}
			dest := *(*uintptr)(unsafe.Pointer(uintptr(r.RegValue)))
			if want := reflect.ValueOf(repls[t.repl]).Pointer(); dest != want {
				return fmt.Errorf("step %d (%s): target %d was diverted to replacement %d (%#x) but its entry jumps through %#x to %#x", step, what, i, t.repl, want, r.RegValue, dest)
			}
			if want := 1000*(t.repl+1) + 5; got != want {
				return fmt.Errorf("step %d (%s): target %d diverted to replacement %d returned %d, want %d", step, what, i, t.repl, got, want)
			}
		}
		return nil
	}
	interleaved, restored := false, false
	lastPrepared := -1
	for step, op := range c.Ops {
		t := ts[op.I%len(ts)]
		// the drawn kind is a wish; an operation that is not enabled in the target's state is replaced by one that is
		kind := op.K
		enabled := map[string][]string{"none": {"patch"}, "prepared": {"apply", "patch"}, "applied": {"unpatch"}, "unpatched": {"restore", "apply", "patch"}}[t.state]
		ok := false
		for _, e := range enabled {
			ok = ok || e == kind
		}
		if !ok {
			kind = enabled[op.S%len(enabled)]
		}
		what := fmt.Sprintf("%s target %d", kind, op.I%len(ts))
		switch kind {
		case "patch":
			if t.state == "applied" {
				continue
			}
			k := op.S % len(repls)
			g, perr := Patch(targets[op.I%len(ts)], repls[k])
			if perr != nil {
				return fmt.Errorf("step %d (%s): Patch refused a pristine target: %v", step, what, perr)
			}
			t.g, t.repl, t.state = g, k, "prepared"
			lastPrepared = op.I % len(ts)
		case "apply":
			if t.state != "prepared" && t.state != "unpatched" {
				continue
			}
			if lastPrepared >= 0 && lastPrepared != op.I%len(ts) {
				interleaved = true
			}
			t.g.Apply()
			t.state = "applied"
		case "unpatch":
			if t.state != "applied" {
				continue
			}
			t.g.UnpatchWithLock()
			t.state = "unpatched"
		case "restore":
			if t.state != "unpatched" {
				continue
			}
			t.g.Restore()
			t.state = "applied"
			restored = true
		}
		if cerr := check(step, what); cerr != nil {
			return cerr
		}
	}
	if interleaved {
		s.Class("guards/apply-after-another-patch-was-prepared")
	}
	if restored {
		s.Class("guards/restore-after-unpatch")
	}
	if interleaved || restored {
		s.NonTrivial(fmt.Sprint(c.Ops))
		s.Sample(c)
	}
	return nil
}

func TestVerifC15Guards(t *testing.T) {
	p := &vkit.Prop{ID: "C15", Unit: "amd64-patch/guards", New: func() interface{} { return &guardCase{} },
		Gen: func(rt *rapid.T) interface{} {
			n := rapid.IntRange(2, 24).Draw(rt, "n")
			c := &guardCase{}
			for i := 0; i < n; i++ {
				c.Ops = append(c.Ops, guardOp{K: rapid.SampledFrom([]string{"patch", "patch", "apply", "apply", "unpatch", "restore"}).Draw(rt, "k"),
					I: rapid.IntRange(0, 4).Draw(rt, "target"), S: rapid.IntRange(0, 5).Draw(rt, "replacement")})
			}
			return c
		},
		Run: runGuards}
	s := p.Main(t, vkit.Scale(3000, 60000))
	if !vkit.Replaying() {
		s.Done()
	}
}
