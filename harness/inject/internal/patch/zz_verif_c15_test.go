//go:build go1.18 && amd64
// +build go1.18,amd64

package patch

import (
	"fmt"
	"testing"

	"github.com/tencent/goom/zverif/c15kit"
	"github.com/tencent/goom/zverif/x86eval"
	refx86 "github.com/tencent/goom/zverif/refx86"
)

// TestVerifC15 — property C15, amd64 emitters of package patch: the entry jump
// (jmpToFunctionValue) and the trampoline's return jump (jmpToOriginFunctionValue).
func TestVerifC15(t *testing.T) {
	entry := c15kit.Emitter{
		Name: "jmpToFunctionValue",
		Emit: func(from, to uint64) []byte { return jmpToFunctionValue(uintptr(from), uintptr(to)) },
		Judge: func(code []byte, from, to uint64) error {
			r, err := x86eval.EvalJump(code, 64, from)
			if err != nil {
				return err
			}
			if !r.Nop {
				return fmt.Errorf("entry jump does not start with the NOP sentinel")
			}
			if r.Kind != "abs" || r.Reg != refx86.RDX {
				return fmt.Errorf("entry jump is %s through %v, want absolute through RDX", r.Kind, r.Reg)
			}
			if r.RegValue != to {
				return fmt.Errorf("RDX holds %#x, want %#x", r.RegValue, to)
			}
			if !checkAlreadyPatch(code) {
				return fmt.Errorf("emitted entry jump is not recognised by checkAlreadyPatch")
			}
			return nil
		},
	}
	ret := c15kit.Emitter{
		Name:     "jmpToOriginFunctionValue",
		UsesFrom: true,
		Emit:     func(from, to uint64) []byte { return jmpToOriginFunctionValue(uintptr(from), uintptr(to)) },
		Judge: func(code []byte, from, to uint64) error {
			r, err := x86eval.EvalJump(code, 64, from)
			if err != nil {
				return err
			}
			if r.Nop {
				return fmt.Errorf("return jump starts with a NOP")
			}
			switch r.Kind {
			case "rel":
				if r.Target != to {
					return fmt.Errorf("relative form chosen but the jump lands on %#x, want %#x (off by %d)", r.Target, to, int64(r.Target-to))
				}
				if (len(code) == 5) != relative(uintptr(from), uintptr(to)) {
					return fmt.Errorf("relative() and the emitted form disagree")
				}
			case "abs":
				if r.Reg != refx86.RDX || r.RegValue != to {
					return fmt.Errorf("absolute form loads %v=%#x, want RDX=%#x", r.Reg, r.RegValue, to)
				}
			}
			return nil
		},
	}
	c15kit.Run(t, "amd64-patch", []c15kit.Emitter{entry, ret})
}
