//go:build go1.18 && amd64
// +build go1.18,amd64

package iface

import (
	"fmt"
	"testing"

	"github.com/tencent/goom/zverif/c15kit"
	"github.com/tencent/goom/zverif/x86eval"
	refx86 "github.com/tencent/goom/zverif/refx86"
)

// TestVerifC15 — property C15, the interface-stub entry jump (jmpWithRdx).
func TestVerifC15(t *testing.T) {
	stub := c15kit.Emitter{
		Name: "jmpWithRdx",
		Emit: func(from, to uint64) []byte { return jmpWithRdx(uintptr(to)) },
		Judge: func(code []byte, from, to uint64) error {
			r, err := x86eval.EvalJump(code, 64, from)
			if err != nil {
				return err
			}
			if r.Kind != "abs" || r.Reg != refx86.RDX || r.Nop {
				return fmt.Errorf("stub jump is %s through %v (nop=%v), want absolute through RDX", r.Kind, r.Reg, r.Nop)
			}
			if r.RegValue != to {
				return fmt.Errorf("RDX holds %#x, want %#x", r.RegValue, to)
			}
			if len(code) > interfaceJumpDataLen {
				return fmt.Errorf("stub code (%d bytes) exceeds the %d bytes requested per stub", len(code), interfaceJumpDataLen)
			}
			return nil
		},
	}
	c15kit.Run(t, "amd64-iface", []c15kit.Emitter{stub})
}
